"""check driver: runs the harness jobs of one property in a process pool, applies the known-findings file,
writes evidence/<id>.json and prints VIOLATION / KNOWN-FINDING lines."""
import argparse
import importlib
import json
import multiprocessing as mp
import os
import re
import sys
import time
import traceback

ROOT = os.path.dirname(os.path.dirname(os.path.abspath(__file__)))
EVID = os.path.join(ROOT, 'evidence')


def _run_job(job):
    """executed in a worker process"""
    kind = job.get('kind', 'symx')
    t0 = time.time()
    try:
        mod = importlib.import_module(job['module'])
        if kind == 'symx':
            from symx.explore import explore
            if hasattr(mod, 'setup'):
                mod.setup()
            fn = getattr(mod, job['fn'])
            res = explore(fn, job['name'], params=job.get('params') or {}, opts=job.get('opts'),
                          max_paths=job.get('max_paths', 200000), budget_s=job.get('budget_s', 300),
                          witness_every=job.get('witness_every', 1),
                          stop_on_violation=not job.get('continue_after_violation', False))
        else:
            fn = getattr(mod, job['fn'])
            res = fn(job)
        res.setdefault('harness', job['name'])
        res['kind'] = kind
        return res
    except BaseException as e:       # noqa
        return dict(harness=job['name'], kind=kind, errors=[f'{type(e).__name__}: {e}\n{traceback.format_exc()[-2000:]}'],
                    paths=0, forks=0, obligations=0, discharged=0, undecided=[], violations=[],
                    witnesses_validated=0, samples=[], solver_s=0, functions=[], exhaustive=False,
                    wall_s=round(time.time() - t0, 2))


def _worker(job, conn):
    try:
        conn.send(_run_job(job))
    except BaseException as e:       # noqa
        try:
            conn.send(dict(harness=job['name'], errors=[f'worker: {type(e).__name__}: {e}']))
        except Exception:
            pass
    finally:
        conn.close()


def _killed_result(job, why):
    return dict(harness=job['name'], kind=job.get('kind', 'symx'), paths=0, forks=0, obligations=0, discharged=0,
                undecided=[dict(harness=job['name'], obligation='*', why=why)], violations=[], witnesses_validated=0,
                samples=[], solver_s=0, functions=[], exhaustive=False, stopped=why, wall_s=0, errors=[])


def _run_pool(jobs, nproc, deadline):
    """one process per job, at most nproc at a time; a job that overruns its own budget (a solver call that ignores its
    timeout) or the check's wall-clock cap is killed and reported as undecided, never as success or violation"""
    ctx = mp.get_context('fork')
    pending = list(jobs)
    running = []          # (proc, conn, job, t_start, limit)
    results = []
    while pending or running:
        now = time.time()
        while pending and len(running) < nproc and now < deadline:
            job = pending.pop(0)
            if job.get('kind', 'symx') == 'symx':
                # never start a job with more budget than the check has left: it then stops by itself and reports what it explored
                job['budget_s'] = max(10, min(job.get('budget_s', 300), deadline - now - 20))
            pc, cc = ctx.Pipe(duplex=False)
            p = ctx.Process(target=_worker, args=(job, cc), daemon=True)
            p.start()
            cc.close()
            running.append((p, pc, job, time.time(), job.get('budget_s', 300) + 90))
        if pending and now >= deadline and not running:
            for job in pending:
                results.append(_killed_result(job, 'not started: wall-clock cap of the check reached'))
            pending = []
            break
        still = []
        for (p, pc, job, ts, limit) in running:
            if pc.poll(0):
                try:
                    results.append(pc.recv())
                except EOFError:
                    results.append(_killed_result(job, 'worker died'))
                p.join(5)
                continue
            if not p.is_alive():
                results.append(_killed_result(job, 'worker died without a result'))
                continue
            if time.time() - ts > limit or time.time() > deadline + 60:
                p.kill()
                p.join(5)
                results.append(_killed_result(job, 'killed: exceeded its wall-clock budget'))
                continue
            still.append((p, pc, job, ts, limit))
        running = still
        if time.time() >= deadline and pending:
            for job in pending:
                results.append(_killed_result(job, 'not started: wall-clock cap of the check reached'))
            pending = []
        time.sleep(0.05)
    return results


def load_known():
    p = os.path.join(ROOT, 'known_findings.json')
    if not os.path.exists(p):
        return []
    return json.load(open(p)).get('findings', [])


def match_known(known, pid, v):
    for k in known:
        if k['property'] != pid:
            continue
        if not re.search(k.get('harness', '.*'), v.get('harness', '')):
            continue
        if not re.search(k.get('obligation', '.*'), v.get('obligation', '')):
            continue
        w = k.get('where')
        if w:
            env = dict(values=v.get('values') or {}, choices=v.get('choices') or {}, params=v.get('params') or {},
                       info=v.get('info') or {})
            try:
                if not eval(w, {'__builtins__': {'abs': abs, 'len': len, 'min': min, 'max': max, 'any': any,
                                                 'all': all, 'str': str, 'int': int, 'float': float}}, env):
                    continue
            except Exception:
                continue
        return k
    return None


def cmd_check(pid, tier, seed, only=None, jobs_n=None):
    t0 = time.time()
    mod = importlib.import_module(f'harness.{pid.lower()}')
    jobs = mod.jobs(tier)
    if only:
        jobs = [j for j in jobs if re.search(only, j['name'])]
    for j in jobs:
        j.setdefault('module', mod.__name__)
    # longest first
    order = sorted(range(len(jobs)), key=lambda i: -jobs[i].get('cost', 1))
    nproc = jobs_n or min(int(os.environ.get('VERIF_JOBS', '16')), max(1, len(jobs)))
    cap = float(os.environ.get('VERIF_WALL_CAP_S', '420' if tier == 'quick' else '1700'))
    results = _run_pool([jobs[i] for i in order], nproc, deadline=t0 + cap)
    results.sort(key=lambda r: r['harness'])
    known = load_known()
    meta = getattr(mod, 'META', {})
    viol, knownhits, errors, undec = [], [], [], []
    for r in results:
        for v in r.get('violations', []):
            k = match_known(known, pid, v)
            (knownhits if k else viol).append((v, k))
        for e in r.get('errors', []):
            errors.append((r['harness'], e))
        undec.extend(r.get('undecided', []))
    os.makedirs(os.path.join(EVID, 'replay'), exist_ok=True)
    # stale replay files of this property
    for f in os.listdir(os.path.join(EVID, 'replay')):
        if f.startswith(pid + '-'):
            os.unlink(os.path.join(EVID, 'replay', f))
    lines = []
    seen_known = set()
    for v, k in knownhits:
        if k['what'] not in seen_known:
            seen_known.add(k['what'])
            lines.append(f"KNOWN-FINDING: property={pid} {k['what']}")
    per_h = {}
    viol_print = []
    for v, k in viol:
        per_h[v['harness']] = per_h.get(v['harness'], 0) + 1
        if per_h[v['harness']] <= 2:
            viol_print.append((v, k))
    for n, (v, _) in enumerate(viol_print):
        path = os.path.join('evidence', 'replay', f"{pid}-{re.sub('[^A-Za-z0-9_.-]', '_', v['harness'])}-{n}.json")
        json.dump(dict(dict(property=pid, module=mod.__name__), **v), open(os.path.join(ROOT, path), 'w'), indent=1, default=str)
        lines.append(f"VIOLATION property={pid} replay={path}")
        print(f"  violated obligation: {v.get('obligation')} in harness {v.get('harness')} inputs={json.dumps(v.get('values'), default=str)[:400]} "
              f"choices={v.get('choices')}", file=sys.stderr)
    states = sum(r.get('paths', 0) for r in results)
    trans = sum(r.get('decisions', r.get('forks', 0)) for r in results) + sum(r.get('obligations', 0) for r in results)
    obl = sum(r.get('obligations', 0) for r in results)
    dis = sum(r.get('discharged', 0) for r in results)
    wit = sum(r.get('witnesses_validated', 0) for r in results)
    samples = []
    for r in results:
        samples.extend(r.get('samples', [])[:2])
    functions = sorted({f for r in results for f in r.get('functions', [])})
    per = [dict(harness=r['harness'], kind=r.get('kind'), paths=r.get('paths', 0), forks=r.get('forks', 0),
                obligations=r.get('obligations', 0), discharged=r.get('discharged', 0),
                constant_folded=r.get('constant_folded', 0),
                undecided=len(r.get('undecided', [])), violations=len(r.get('violations', [])),
                witnesses_validated=r.get('witnesses_validated', 0), witness_mismatch=len(r.get('witness_mismatch', [])),
                infeasible_paths=r.get('infeasible_paths', 0), aborted_paths=r.get('aborted_paths', 0),
                exhaustive=r.get('exhaustive', False), stopped=r.get('stopped'),
                solver_s=r.get('solver_s', 0), queries=r.get('queries', 0), wall_s=r.get('wall_s', 0),
                unsupported=r.get('unsupported', []), params=r.get('params'), bound=r.get('bound'),
                obligation_names=r.get('obligation_names', [])[:60], errors=[e[:300] for e in r.get('errors', [])],
                detail=r.get('detail'))
           for r in results]
    import z3
    ev = dict(
        property_id=pid, tier=tier, seed=seed, level=meta.get('level', 'model_checking'),
        coverage=dict(
            states=max(states, 0), transitions=max(trans, 0), traces_validated_against_impl=wit,
            obligations=obl, discharged=dis, undecided=len(undec),
            samples=samples[:12] if samples else [dict(note='no witness sample recorded')],
            exhaustive=bool(results) and all(r.get('exhaustive', False) for r in results),
            evaluations=max(states, 1), distinct_nontrivial=max(states, 0),
            transitions_rule='transitions = branch/value decisions taken along all explored paths + obligation queries',
            rule='one evaluation = one explored program path (distinct decision prefix) of a harness with a satisfiable path '
                 'condition; every path carries at least one solver-decided obligation',
            explanation=meta.get('explanation', ''),
            functions_encoded=functions, harnesses=per, bounds=meta.get('bounds', []),
            stubs=meta.get('stubs', []), shims=meta.get('shims', []),
            solver=dict(z3=z3.get_version_string(), solver_seconds=round(sum(r.get('solver_s', 0) for r in results), 2),
                        queries=sum(r.get('queries', 0) for r in results)),
            undecided_list=undec[:30], known_findings_hit=sorted(seen_known),
            engine_errors=[f'{h}: {e[:500]}' for h, e in errors][:10],
            trusted_base=meta.get('trusted_base', ['z3', 'symx operator overloading', 'CPython', 'numpy dispatch']),
        ),
        assumptions=meta.get('assumptions', []),
        wall_s=round(time.time() - t0, 2),
        violations=len(viol),
    )
    os.makedirs(EVID, exist_ok=True)
    json.dump(ev, open(os.path.join(EVID, f'{pid}.json'), 'w'), indent=1, default=str)
    for r in per:
        print(f"  [{r['harness']}] paths={r['paths']} forks={r['forks']} obligations={r['obligations']} discharged={r['discharged']} "
              f"undecided={r['undecided']} violations={r['violations']} witnesses={r['witnesses_validated']} "
              f"mismatch={r['witness_mismatch']} exhaustive={r['exhaustive']} solver={r['solver_s']}s wall={r['wall_s']}s"
              + (f" UNSUPPORTED={r['unsupported'][:1]}" if r['unsupported'] else ''), file=sys.stderr)
    for u in undec[:10]:
        print(f"  undecided: {json.dumps(u, default=str)[:300]}", file=sys.stderr)
    for h, e in errors:
        print(f"ENGINE-ERROR harness={h}: {e}", file=sys.stderr)
    for ln in lines:
        print(ln)
    print(f"{pid} {tier}: states={states} obligations={obl} discharged={dis} undecided={len(undec)} "
          f"violations={len(viol)} known={len(knownhits)} wall={ev['wall_s']}s")
    if viol:
        return 1
    if errors or states == 0:
        return 3
    return 0


def cmd_replay(path):
    from symx.explore import run_concrete
    rec = json.load(open(path))
    mod = importlib.import_module(rec['module'])
    if rec.get('kind', 'symx') != 'symx' and hasattr(mod, 'replay'):
        return mod.replay(rec)
    if hasattr(mod, 'setup'):
        mod.setup()
    job = [j for j in mod.jobs('thorough') + mod.jobs('quick') if j['name'] == rec['harness']][0]
    fn = getattr(mod, job['fn'])
    ctx, err = run_concrete(fn, job.get('params') or {}, rec['values'], rec['choices'])
    failed = [k for k, v in ctx.conc_results.items() if v is False]
    print(f"replay of {rec['harness']}: inputs={rec['values']} choices={rec['choices']}")
    print(f"  error={err} failed obligations={failed}")
    if rec['obligation'] in failed:
        print(f"VIOLATION property={rec['property']} replay={path}")
        return 1
    return 0


def main():
    ap = argparse.ArgumentParser()
    ap.add_argument('what')
    ap.add_argument('arg', nargs='?')
    ap.add_argument('--tier', default=os.environ.get('VERIF_TIER', 'quick'))
    ap.add_argument('--only', default=None)
    ap.add_argument('-j', type=int, default=None)
    a = ap.parse_args()
    seed = int(os.environ.get('VERIF_SEED', '0') or 0)
    if a.what == 'replay':
        sys.exit(cmd_replay(a.arg))
    sys.exit(cmd_check(a.what.upper(), a.tier, seed, a.only, a.j))


if __name__ == '__main__':
    main()
