"""numpy-name shims installed in the gnpy module namespaces (harness process only; nothing under /repo is touched).

gnpy imports numpy functions by name (`from numpy import exp, log10, ...`).  numpy dispatches ufuncs on dtype=object
arrays to element methods (`x.log10()`), which our symbolic scalars implement, but arrays that mix floats and symbols
break that dispatch (float has no `.exp`), and constructors such as `ones`/`zeros`/`full` create float64 arrays that
cannot be updated in place with symbols.  Every shim behaves exactly like the numpy function on ordinary float input.
"""
import math
import numpy as np

from .core import SR, SI, SB, _map, is_symbolic

_UFUNC_METHODS = {'exp': 'exp', 'log10': 'log10', 'sqrt': 'sqrt', 'arcsinh': 'arcsinh', 'log': 'log',
                  'ceil': 'ceil', 'floor': 'floor', 'arctan': 'arctan'}

SHIMMED = set()


def _has_sym(a):
    if is_symbolic(a):
        return True
    if isinstance(a, np.ndarray) and a.dtype == object:
        return any(is_symbolic(x) for x in a.flat)
    if isinstance(a, (list, tuple)):
        return any(_has_sym(x) for x in a)
    return False


def _elem(name, x):
    if isinstance(x, SI):
        if name in ('ceil', 'floor'):
            return x
        x = SR.lift(x)
    if isinstance(x, SR):
        return getattr(x, name)()
    return getattr(np, name)(float(x))


def safe_ufunc(name):
    uf = getattr(np, name)

    def f(x, *a, **k):
        if is_symbolic(x):
            return _elem(name, x)
        if isinstance(x, (list, tuple)) and _has_sym(x):
            x = np.array(x, dtype=object)
        if isinstance(x, np.ndarray) and x.dtype == object:
            return _map(x, lambda e: _elem(name, e))
        return uf(x, *a, **k)
    f.__name__ = f'safe_{name}'
    return f


def _objfill(shape, value):
    """dtype=object array filled with numpy float64 scalars (so that x/0 gives inf as in float arrays, not ZeroDivisionError)"""
    out = np.empty(shape, dtype=object)
    v = np.float64(value)
    for idx in np.ndindex(out.shape):
        out[idx] = v
    return out


def obj_ones(shape, *a, **k):
    return _objfill(shape, 1.0) if _OBJ_CTORS[0] and not a and not k else np.ones(shape, *a, **k)


def obj_zeros(shape, *a, **k):
    return _objfill(shape, 0.0) if _OBJ_CTORS[0] and not a and not k else np.zeros(shape, *a, **k)


def obj_full(shape, fill_value, *a, **k):
    if _OBJ_CTORS[0] or _has_sym(fill_value):
        out = np.empty(shape, dtype=object)
        if isinstance(fill_value, (list, tuple, np.ndarray)):
            fv = np.asarray(fill_value, dtype=object)
            out[...] = fv
        else:
            for idx in np.ndindex(out.shape):
                out[idx] = fill_value
        return out
    return np.full(shape, fill_value, *a, **k)


_OBJ_CTORS = [False]


def object_constructors(on):
    """make ones/zeros/full in the shimmed modules return dtype=object arrays (symbolic runs only)"""
    _OBJ_CTORS[0] = bool(on)


def safe_sum(a, *args, **kw):
    if isinstance(a, np.ndarray) and a.dtype == object and a.ndim == 1 and not args and not kw:
        s = 0
        for x in a:
            s = s + x
        return s
    if isinstance(a, (list, tuple)) and _has_sym(a):
        s = 0
        for x in a:
            s = s + x
        return s
    return np.sum(a, *args, **kw)


def safe_mean(a, *args, **kw):
    if (isinstance(a, np.ndarray) and a.dtype == object and a.ndim == 1 or
            isinstance(a, (list, tuple)) and _has_sym(a)) and not args and not kw:
        return safe_sum(a) / len(a)
    return np.mean(a, *args, **kw)


def safe_abs(a):
    if is_symbolic(a):
        return abs(a)
    if isinstance(a, np.ndarray) and a.dtype == object:
        return _map(a, abs)
    return np.abs(a)


def safe_any(a, *args, **kw):
    if isinstance(a, np.ndarray) and a.dtype == object:
        for x in a.flat:
            if bool(x):
                return True
        return False
    return np.any(a, *args, **kw)


def safe_isclose(a, b, rel_tol=1e-09, abs_tol=0.0):
    """math.isclose by its definition over the reals: |a-b| <= max(rel_tol*max(|a|,|b|), abs_tol)"""
    if is_symbolic(a) or is_symbolic(b):
        a = SR.lift(a)
        b = SR.lift(b)
        d = abs(a - b)
        if abs_tol and bool(d <= abs_tol):
            return True            # the limit is at least abs_tol
        m = abs(a) if bool(abs(a) >= abs(b)) else abs(b)
        return bool(d <= m * rel_tol)
    return math.isclose(a, b, rel_tol=rel_tol, abs_tol=abs_tol)


def safe_allclose(a, b, rtol=1e-05, atol=1e-08, equal_nan=False):
    if _has_sym(a) or _has_sym(b):
        aa = np.atleast_1d(np.asarray(a, dtype=object))
        bb = np.atleast_1d(np.asarray(b, dtype=object))
        aa, bb = np.broadcast_arrays(aa, bb)
        for x, y in zip(aa.flat, bb.flat):
            if not bool(abs(SR.lift(x) - y) <= atol + rtol * abs(SR.lift(y))):
                return False
        return True
    return np.allclose(a, b, rtol=rtol, atol=atol, equal_nan=equal_nan)


def safe_interp(x, xp, fp, *a, **k):
    """np.interp with a symbolic abscissa and/or ordinates: piecewise-linear, the segment chosen by forking"""
    if not (_has_sym(x) or _has_sym(fp) or _has_sym(xp)):
        if isinstance(x, np.ndarray) and x.dtype == object:
            x = x.astype(float)
        return np.interp(x, xp, fp, *a, **k)
    if isinstance(x, np.ndarray):
        return _map(np.asarray(x, dtype=object), lambda e: safe_interp(e, xp, fp))
    xp = list(xp)
    fp = list(fp)
    if bool(x <= xp[0]):
        return fp[0]
    if bool(x >= xp[-1]):
        return fp[-1]
    for i in range(len(xp) - 1):
        if bool(x <= xp[i + 1]):
            return fp[i] + (fp[i + 1] - fp[i]) * (x - xp[i]) / (xp[i + 1] - xp[i])
    return fp[-1]


def safe_clip(a, lo, hi):
    if _has_sym(a) or _has_sym(lo) or _has_sym(hi):
        def c(x):
            if lo is not None and bool(x < lo):
                return lo
            if hi is not None and bool(x > hi):
                return hi
            return x
        if isinstance(a, np.ndarray):
            return _map(np.asarray(a, dtype=object), c)
        return c(a)
    return np.clip(a, lo, hi)


def safe_argmin(a, *args, **kw):
    if isinstance(a, (list, np.ndarray)) and _has_sym(a):
        best = 0
        for i in range(1, len(a)):
            if bool(a[i] < a[best]):
                best = i
        return best
    return np.argmin(a, *args, **kw)


def safe_isinf(x):
    if is_symbolic(x):
        return False
    return math.isinf(x)


def safe_mceil(x):
    if is_symbolic(x):
        return SR.lift(x).ceil() if not isinstance(x, SI) else x
    return math.ceil(x)


def safe_polyval(p, x):
    if _has_sym(p) or _has_sym(x):
        y = 0
        for c in p:
            y = y * x + c
        return y
    return np.polyval(p, x)


_TABLE = {
    'sum': (np.sum, safe_sum), 'mean': (np.mean, safe_mean), 'abs': (np.abs, safe_abs), 'any': (np.any, safe_any),
    'ones': (np.ones, obj_ones), 'zeros': (np.zeros, obj_zeros), 'full': (np.full, obj_full),
    'allclose': (np.allclose, safe_allclose), 'interp': (np.interp, safe_interp), 'clip': (np.clip, safe_clip),
    'argmin': (np.argmin, safe_argmin), 'isclose': (math.isclose, safe_isclose), 'isinf': (math.isinf, safe_isinf),
    'polyval': (np.polyval, safe_polyval),
}
for _n in _UFUNC_METHODS:
    _TABLE[_n] = (getattr(np, _n), safe_ufunc(_n))


def safe_np_isclose(a, b, rtol=1e-05, atol=1e-08, equal_nan=False):
    """numpy.isclose by its definition over the reals, |a-b| <= atol + rtol*|b|, element-wise (each comparison forks)"""
    if not (_has_sym(a) or _has_sym(b)):
        return np.isclose(np.asarray(a, dtype=float) if isinstance(a, np.ndarray) and a.dtype == object else a,
                          np.asarray(b, dtype=float) if isinstance(b, np.ndarray) and b.dtype == object else b,
                          rtol=rtol, atol=atol, equal_nan=equal_nan)
    aa, bb = np.broadcast_arrays(np.asarray(a, dtype=object), np.asarray(b, dtype=object))
    out = np.empty(aa.shape, dtype=bool)
    for idx in np.ndindex(aa.shape):
        x, y = aa[idx], bb[idx]
        if is_symbolic(x) or is_symbolic(y):
            out[idx] = bool(abs(SR.lift(x) - SR.lift(y)) <= atol + rtol * abs(SR.lift(y)))
        else:
            out[idx] = bool(np.isclose(float(x), float(y), rtol=rtol, atol=atol))
    return out if aa.shape else bool(out)


_TABLE_NP2 = {'isclose': (np.isclose, safe_np_isclose)}


def patch(*modules):
    import math as _m
    for m in modules:
        for name, (orig, repl) in list(_TABLE.items()) + list(_TABLE_NP2.items()):
            cur = m.__dict__.get(name)
            if cur is orig:
                m.__dict__[name] = repl
                SHIMMED.add(f'{m.__name__}.{name}')
        if m.__dict__.get('ceil') is _m.ceil:
            m.__dict__['ceil'] = safe_mceil
            SHIMMED.add(f'{m.__name__}.ceil')


def patch_gnpy():
    import gnpy.core.info as info
    import gnpy.core.elements as elements
    import gnpy.core.utils as utils
    import gnpy.core.science_utils as su
    import gnpy.core.parameters as parameters
    import gnpy.core.network as network
    import gnpy.topology.request as request
    patch(info, elements, utils, su, parameters, network, request)
    # Transceiver.update_snr accumulates `snr_added += db2lin(-s)` starting from the int 0: the first addend fixes the dtype
    # of the accumulator, and a float64 accumulator cannot take a later symbolic addend in place.  In symbolic runs the
    # elements-module name db2lin returns the same values as dtype=object arrays.
    _db2lin = elements.db2lin

    def db2lin_obj(value):
        r = _db2lin(value)
        if _OBJ_CTORS[0] and isinstance(r, np.ndarray) and r.dtype != object:
            return r.astype(object)
        return r
    if elements.__dict__.get('db2lin') is utils.db2lin:
        elements.db2lin = db2lin_obj
        SHIMMED.add('gnpy.core.elements.db2lin')
    return sorted(SHIMMED)


class SymInterp1d:
    """scipy.interpolate.interp1d (kind linear, 1-D) whose ordinates may be symbolic: abscissae and query points are concrete,
    so each value is a fixed affine combination of two ordinates (no forking); fill_value='extrapolate' continues the first /
    last segment, otherwise points outside the range raise like scipy does (bounds_error default)"""
    def __init__(self, x, y, kind='linear', axis=-1, copy=True, bounds_error=None, fill_value=np.nan, assume_sorted=False):
        from scipy.interpolate import interp1d as _real
        self._args = (kind, axis, copy, bounds_error, fill_value, assume_sorted)
        if not _has_sym(y):
            self._real = _real(np.asarray(x, dtype=float), np.asarray(y, dtype=float), kind=kind, axis=axis, copy=copy,
                               bounds_error=bounds_error, fill_value=fill_value, assume_sorted=assume_sorted)
            return
        self._real = None
        if kind != 'linear' or np.ndim(y) != 1:
            raise NotImplementedError('SymInterp1d: only 1-D linear interpolation of symbolic ordinates')
        order = np.argsort(np.asarray(x, dtype=float))
        self.x = [float(np.asarray(x, dtype=float)[i]) for i in order]
        self.y = [list(y)[i] for i in order]
        self.extrapolate = isinstance(fill_value, str) and fill_value == 'extrapolate'

    def __call__(self, xn):
        if self._real is not None:
            return self._real(xn)
        out = []
        for v in np.atleast_1d(np.asarray(xn, dtype=float)):
            if (v < self.x[0] or v > self.x[-1]) and not self.extrapolate:
                raise ValueError('A value in x_new is outside the interpolation range.')
            j = 0
            while j < len(self.x) - 2 and v > self.x[j + 1]:
                j += 1
            w = (v - self.x[j]) / (self.x[j + 1] - self.x[j])
            out.append(self.y[j] * (1 - w) + self.y[j + 1] * w if w not in (0.0, 1.0) else (self.y[j] if w == 0.0 else self.y[j + 1]))
        res = np.empty(len(out), dtype=object)
        for i, e in enumerate(out):
            res[i] = e
        return res if np.ndim(xn) else res[0]
