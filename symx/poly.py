"""Exact sparse multivariate polynomials / rational functions over Q, built from z3 real terms.

Used (a) to decide congruence of abstracted function applications (asinh, exp, sqrt, log10 atoms) by an exact
identity test, (b) to bring obligations and branch conditions to a common denominator so that the SMT solver only
sees polynomial constraints (and none at all when the difference is the zero polynomial), (c) to read off signs.
"""
import z3
from fractions import Fraction


class TooBig(Exception):
    pass


MAX_MONOMIALS = 6000
MAX_BITS = 200000      # coefficient size guard (exact rationals of long float products explode)


class Poly:
    __slots__ = ('m',)

    def __init__(self, m=None):
        self.m = m if m is not None else {}     # monomial: tuple of (var_id, exp) sorted -> Fraction

    @staticmethod
    def const(c):
        c = Fraction(c)
        return Poly({(): c}) if c != 0 else Poly()

    @staticmethod
    def var(vid):
        return Poly({((vid, 1),): Fraction(1)})

    def __add__(a, b):
        if len(a.m) < len(b.m):
            a, b = b, a
        m = dict(a.m)
        for k, c in b.m.items():
            n = m.get(k, 0) + c
            if n == 0:
                m.pop(k, None)
            else:
                m[k] = n
        return Poly(m)

    def __neg__(a):
        return Poly({k: -c for k, c in a.m.items()})

    def __sub__(a, b):
        return a + (-b)

    def scale(a, c):
        if c == 0:
            return Poly()
        return Poly({k: v * c for k, v in a.m.items()})

    def __mul__(a, b):
        if len(a.m) * len(b.m) > MAX_MONOMIALS * 40:
            raise TooBig()
        m = {}
        for k1, c1 in a.m.items():
            if not k1:
                for k2, c2 in b.m.items():
                    n = m.get(k2, 0) + c1 * c2
                    if n == 0:
                        m.pop(k2, None)
                    else:
                        m[k2] = n
                continue
            d1 = dict(k1)
            for k2, c2 in b.m.items():
                if not k2:
                    k = k1
                else:
                    d = dict(d1)
                    for v, e in k2:
                        d[v] = d.get(v, 0) + e
                    k = tuple(sorted(d.items()))
                n = m.get(k, 0) + c1 * c2
                if n == 0:
                    m.pop(k, None)
                else:
                    m[k] = n
        if len(m) > MAX_MONOMIALS:
            raise TooBig()
        if m:
            c0 = next(iter(m.values()))
            if c0.numerator.bit_length() + c0.denominator.bit_length() > MAX_BITS:
                raise TooBig()
        return Poly(m)

    def is_zero(a):
        return not a.m

    def is_const(a):
        return all(not k for k in a.m)

    def const_value(a):
        return a.m.get((), Fraction(0))

    def __len__(a):
        return len(a.m)

    def vars(a):
        s = set()
        for k in a.m:
            for v, _ in k:
                s.add(v)
        return s

    def monomial_content(a):
        """largest monomial dividing every term (as dict var->exp)"""
        it = iter(a.m)
        try:
            first = dict(next(it))
        except StopIteration:
            return {}
        for k in it:
            d = dict(k)
            for v in list(first):
                e = min(first[v], d.get(v, 0))
                if e == 0:
                    del first[v]
                else:
                    first[v] = e
            if not first:
                break
        return first

    def div_monomial(a, mono):
        if not mono:
            return a
        m = {}
        for k, c in a.m.items():
            d = dict(k)
            for v, e in mono.items():
                ne = d[v] - e
                if ne == 0:
                    del d[v]
                else:
                    d[v] = ne
            m[tuple(sorted(d.items()))] = c
        return Poly(m)

    def key(a):
        return frozenset(a.m.items())


ONE = Poly.const(1)


class RF:
    """rational function n/d"""
    __slots__ = ('n', 'd')

    def __init__(self, n, d=None):
        self.n = n
        self.d = d if d is not None else ONE

    def __add__(a, b):
        if a.d is b.d or a.d.m == b.d.m:
            return RF(a.n + b.n, a.d)
        return RF(a.n * b.d + b.n * a.d, a.d * b.d)

    def __sub__(a, b):
        if a.d is b.d or a.d.m == b.d.m:
            return RF(a.n - b.n, a.d)
        return RF(a.n * b.d - b.n * a.d, a.d * b.d)

    def __mul__(a, b):
        return RF(a.n * b.n, a.d * b.d)

    def __truediv__(a, b):
        return RF(a.n * b.d, a.d * b.n)

    def equals(a, b):
        try:
            return (a.n * b.d - b.n * a.d).is_zero()
        except TooBig:
            return False

    def reduce_monomials(a):
        """cancel common monomial factors and normalise constant denominators"""
        cn, cd = a.n.monomial_content(), a.d.monomial_content()
        common = {v: min(e, cd[v]) for v, e in cn.items() if v in cd}
        n, d = a.n.div_monomial(common), a.d.div_monomial(common)
        if d.is_const() and not d.is_zero():
            c = d.const_value()
            return RF(n.scale(1 / c), ONE)
        return RF(n, d)


def _lex_leading(p, order):
    best, bk = None, None
    for mono, c in p.m.items():
        d = dict(mono)
        k = tuple(d.get(v, 0) for v in order)
        if bk is None or k > bk:
            best, bk = (mono, c), k
    return best


def rf_as_monomial(rf):
    """if the rational function equals c * (monomial / monomial) return (c, num_monomial, den_monomial) (tuples of
    (var, exp)), else None.  Candidate from the lex-leading terms, verified by exact polynomial multiplication."""
    n, d = rf.n, rf.d
    if n.is_zero() or d.is_zero():
        return None
    if len(n) == 1 and len(d) == 1:
        (mn, cn), = n.m.items()
        (md, cd), = d.m.items()
        return cn / cd, mn, md
    order = sorted(n.vars() | d.vars())
    (mn, cn) = _lex_leading(n, order)
    (md, cd) = _lex_leading(d, order)
    coef = cn / cd
    en, ed = dict(mn), dict(md)
    num, den = {}, {}
    for v in set(en) | set(ed):
        e = en.get(v, 0) - ed.get(v, 0)
        if e > 0:
            num[v] = e
        elif e < 0:
            den[v] = -e
    pn = Poly({tuple(sorted(num.items())): Fraction(1)})
    pd = Poly({tuple(sorted(den.items())): Fraction(1)})
    try:
        if (n * pd - (d * pn).scale(coef)).is_zero():
            return coef, tuple(sorted(num.items())), tuple(sorted(den.items()))
    except TooBig:
        return None
    return None


class Normaliser:
    """z3 term -> RF, with per-instance caches (terms are kept alive so z3 ids are not reused)."""

    def __init__(self):
        self.cache = {}
        self.vars = {}       # vid -> z3 const

    def to_rf(self, t):
        key = t.get_id()
        hit = self.cache.get(key)
        if hit is not None:
            return hit[1]
        k = t.decl().kind()
        if z3.is_rational_value(t):
            r = RF(Poly.const(Fraction(t.numerator_as_long(), t.denominator_as_long())))
        elif z3.is_int_value(t):
            r = RF(Poly.const(t.as_long()))
        elif k == z3.Z3_OP_ADD:
            r = self.to_rf(t.arg(0))
            for i in range(1, t.num_args()):
                r = r + self.to_rf(t.arg(i))
        elif k == z3.Z3_OP_SUB:
            r = self.to_rf(t.arg(0))
            for i in range(1, t.num_args()):
                r = r - self.to_rf(t.arg(i))
        elif k == z3.Z3_OP_UMINUS:
            r = RF(Poly()) - self.to_rf(t.arg(0))
        elif k == z3.Z3_OP_MUL:
            r = self.to_rf(t.arg(0))
            for i in range(1, t.num_args()):
                r = r * self.to_rf(t.arg(i))
        elif k == z3.Z3_OP_DIV:
            r = self.to_rf(t.arg(0)) / self.to_rf(t.arg(1))
        elif k == z3.Z3_OP_POWER and z3.is_rational_value(t.arg(1)) and t.arg(1).denominator_as_long() == 1:
            e = t.arg(1).numerator_as_long()
            b = self.to_rf(t.arg(0))
            r = RF(ONE)
            for _ in range(abs(e)):
                r = r * b
            if e < 0:
                r = RF(ONE) / r
        elif k == z3.Z3_OP_TO_REAL:
            r = self.to_rf(t.arg(0))
        elif t.num_args() == 0 and k == z3.Z3_OP_UNINTERPRETED:
            self.vars[key] = t
            r = RF(Poly.var(key))
        else:
            raise TooBig()   # not a rational-function term (ite, to_int, ...): caller falls back to the raw term
        self.cache[key] = (t, r)
        return r

    def poly_to_z3(self, p):
        s = None
        for mono, c in p.m.items():
            term = None
            for vid, e in mono:
                v = self.vars[vid]
                for _ in range(e):
                    term = v if term is None else term * v
            cz = z3.RealVal(f'{c.numerator}/{c.denominator}')
            if term is None:
                term = cz
            elif c != 1:
                term = cz * term
            s = term if s is None else s + term
        return s if s is not None else z3.RealVal(0)

    def eval_poly(self, p, val):
        """val: vid -> Fraction"""
        s = Fraction(0)
        for mono, c in p.m.items():
            x = c
            for vid, e in mono:
                x *= val[vid] ** e
            s += x
        return s
