"""fp-lemmas: bit-precise IEEE-754 binary64 checks of small arithmetic kernels, translated from the CURRENT source of the
function (Python AST -> z3 FP/BV terms).  Supported: straight-line functions made of assignments and a return of
arithmetic expressions over ints and floats, int()/(int)() truncation, math.ceil, default arguments, tuple returns,
calls to other supported functions of the same module."""
import ast
import inspect
import math
import textwrap
import time

import z3

W = 16          # width of the bit-vectors standing for python ints (inputs are bounded so that nothing wraps: |values| < 2**15)
F64 = z3.Float64()
RNE, RTZ, RTP, RTN = z3.RNE(), z3.RTZ(), z3.RTP(), z3.RTN()


class Unsupported(Exception):
    pass


def to_fp(v):
    kind, e = v
    if kind == 'fp':
        return e
    return z3.fpSignedToFP(RNE, e, F64)


def I(e):
    return ('int', e)


def Fp(e):
    return ('fp', e)


class Translator:
    def __init__(self, module):
        self.module = module
        self.asserts_no_wrap = []

    def call(self, fn, args):
        src = textwrap.dedent(inspect.getsource(fn))
        fdef = ast.parse(src).body[0]
        params = [a.arg for a in fdef.args.args]
        defaults = fdef.args.defaults
        env = {}
        for i, p in enumerate(params):
            if i < len(args):
                env[p] = args[i]
            else:
                d = defaults[i - (len(params) - len(defaults))]
                env[p] = self.expr(d, {})
        for st in fdef.body:
            if isinstance(st, ast.Expr) and isinstance(st.value, ast.Constant):
                continue        # docstring
            if isinstance(st, ast.Assign) and len(st.targets) == 1:
                t = st.targets[0]
                val = self.expr(st.value, env)
                if isinstance(t, ast.Name):
                    env[t.id] = val
                elif isinstance(t, ast.Tuple):
                    for n, v in zip(t.elts, val):
                        env[n.id] = v
                else:
                    raise Unsupported(ast.dump(st))
            elif isinstance(st, ast.Return):
                return self.expr(st.value, env)
            else:
                raise Unsupported(ast.dump(st))
        raise Unsupported('no return')

    def expr(self, e, env):
        if isinstance(e, ast.Constant):
            if isinstance(e.value, bool):
                raise Unsupported('bool')
            if isinstance(e.value, int):
                return I(z3.BitVecVal(e.value, W))
            if isinstance(e.value, float):
                return Fp(z3.FPVal(e.value, F64))
            raise Unsupported(repr(e.value))
        if isinstance(e, ast.Name):
            if e.id in env:
                return env[e.id]
            val = getattr(self.module, e.id, None)
            if isinstance(val, float):
                return Fp(z3.FPVal(val, F64))
            if isinstance(val, int):
                return I(z3.BitVecVal(val, W))
            raise Unsupported(f'name {e.id}')
        if isinstance(e, ast.Tuple):
            return tuple(self.expr(x, env) for x in e.elts)
        if isinstance(e, ast.UnaryOp) and isinstance(e.op, ast.USub):
            k, v = self.expr(e.operand, env)
            return (k, -v) if k == 'int' else Fp(z3.fpNeg(v))
        if isinstance(e, ast.BinOp):
            a, b = self.expr(e.left, env), self.expr(e.right, env)
            if isinstance(e.op, ast.Div):
                return Fp(z3.fpDiv(RNE, to_fp(a), to_fp(b)))
            if a[0] == 'int' and b[0] == 'int':
                if isinstance(e.op, ast.Add):
                    return I(a[1] + b[1])
                if isinstance(e.op, ast.Sub):
                    return I(a[1] - b[1])
                if isinstance(e.op, ast.Mult):
                    return I(a[1] * b[1])
                raise Unsupported(ast.dump(e.op))
            fa, fb = to_fp(a), to_fp(b)
            if isinstance(e.op, ast.Add):
                return Fp(z3.fpAdd(RNE, fa, fb))
            if isinstance(e.op, ast.Sub):
                return Fp(z3.fpSub(RNE, fa, fb))
            if isinstance(e.op, ast.Mult):
                return Fp(z3.fpMul(RNE, fa, fb))
            raise Unsupported(ast.dump(e.op))
        if isinstance(e, ast.Call):
            # (int)(x) and int(x): truncation toward zero
            f = e.func
            name = f.id if isinstance(f, ast.Name) else (f.attr if isinstance(f, ast.Attribute) else None)
            args = [self.expr(a, env) for a in e.args]
            if name == 'int':
                k, v = args[0]
                return args[0] if k == 'int' else I(z3.fpToSBV(RTZ, v, z3.BitVecSort(W)))
            if name == 'ceil':
                k, v = args[0]
                return args[0] if k == 'int' else I(z3.fpToSBV(RTP, v, z3.BitVecSort(W)))
            if name == 'floor':
                k, v = args[0]
                return args[0] if k == 'int' else I(z3.fpToSBV(RTN, v, z3.BitVecSort(W)))
            target = getattr(self.module, name, None)
            if target is not None and inspect.isfunction(target):
                return self.call(target, args)
            raise Unsupported(f'call {name}')
        raise Unsupported(ast.dump(e))


def int_var(name, lo, hi, constraints):
    v = z3.BitVec(name, W)
    constraints.append(z3.And(v >= lo, v <= hi))
    return I(v)


def decide(name, constraints, claim, timeout_s=120, use_cvc5=True):
    """claim must hold for all values satisfying constraints: check sat(constraints and not claim) with z3 and, as a
    cross-check, with the cvc5 binary on the same SMT-LIB text.  Agreement on unsat = decided; any `sat` = counterexample;
    anything else (timeout, error, disagreement) = undecided."""
    import os
    import subprocess
    import tempfile
    t0 = time.time()
    s = z3.Solver()
    s.set('timeout', int(timeout_s * 1000))
    for c in constraints:
        s.add(c)
    s.add(z3.Not(claim))
    proc = None
    path = None
    if use_cvc5:
        fd, path = tempfile.mkstemp(suffix='.smt2', prefix='fplemma_')
        with os.fdopen(fd, 'w') as f:
            f.write('(set-logic QF_BVFP)\n' + s.to_smt2().replace('(set-info :status unknown)', ''))
        try:
            proc = subprocess.Popen(['cvc5', '--lang', 'smt2', f'--tlimit={int(timeout_s * 1000)}', path],
                                    stdout=subprocess.PIPE, stderr=subprocess.PIPE, text=True)
        except OSError:
            proc = None
    r = s.check()
    res = dict(name=name, z3=str(r), seconds=round(time.time() - t0, 2))
    if r == z3.sat:
        m = s.model()
        res['model'] = {d.name(): (m[d].as_signed_long() if z3.is_bv(m[d]) else str(m[d])) for d in m.decls()}
    if proc is not None:
        try:
            out, err = proc.communicate(timeout=timeout_s + 30)
        except subprocess.TimeoutExpired:
            proc.kill()
            out, err = 'timeout', ''
        first = (out.strip().splitlines() or [''])[0]
        res['cvc5'] = 'error' if ('(error' in out or err.strip()) and first not in ('sat', 'unsat') else first
        res['seconds_total'] = round(time.time() - t0, 2)
    if path:
        try:
            os.unlink(path)
        except OSError:
            pass
    answers = {res['z3']} | ({res['cvc5']} if 'cvc5' in res else set())
    if 'sat' in answers and 'unsat' in answers:
        res['status'] = 'disagreement'
    elif r == z3.sat:
        res['status'] = 'sat'
    elif answers == {'unsat'}:
        res['status'] = 'unsat'
    elif 'unsat' in answers:
        # one solver proved it, the other ran out of time (no contradiction)
        res['status'] = 'unsat(' + ('z3' if r == z3.unsat else 'cvc5') + ' only)'
    else:
        res['status'] = 'undecided'
    return res
