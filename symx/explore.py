"""DFS path exploration by re-execution, obligation bookkeeping, concrete replay of solver models."""
import json
import sys
import time
import traceback

from . import core
from .core import Ctx, Abort, Unsupported, Budget, Decision


def run_concrete(harness, params, values, choices):
    """ordinary (float) execution of the harness on the real code with the inputs of a solver model"""
    prev = core.CTX
    ctx = Ctx('conc', values=values, choices=choices)
    ctx.params = params
    core.CTX = ctx
    err = None
    try:
        harness(ctx, **params)
    except Abort as e:
        err = f'Abort: {e}'
    except Unsupported as e:
        err = f'Unsupported: {e}'
    except Exception as e:       # noqa
        err = f'{type(e).__name__}: {e}'
        ctx.tb = traceback.format_exc()
    finally:
        core.CTX = prev
    return ctx, err


class _Tracer:
    def __init__(self, root='/repo/gnpy'):
        self.root = root
        self.seen = set()

    def __call__(self, frame, event, arg):
        if event == 'call':
            co = frame.f_code
            fn = co.co_filename
            if fn.startswith(self.root):
                self.seen.add(f'{fn[len("/repo/"):]}:{co.co_firstlineno}:{co.co_name}')


def explore(harness, name, params=None, opts=None, max_paths=100000, budget_s=600.0, witness_every=1,
            max_samples=3, stop_on_violation=True):
    params = params or {}
    t_start = time.time()
    res = dict(harness=name, params={k: repr(v) for k, v in params.items()}, paths=0, forks=0, infeasible_paths=0,
               aborted_paths=0, obligations=0, discharged=0, constant_folded=0, undecided=[], violations=[],
               witnesses_validated=0, witness_mismatch=[], witness_unknown=0, samples=[], solver_s=0.0, queries=0,
               functions=[], exhaustive=False, errors=[], unsupported=[], assumed=[], obligation_names=[])
    names = set()
    prefix = []
    tracer = _Tracer()
    first = True
    done = False
    while not done:
        ctx = Ctx('sym', prefix=prefix, opts=opts)
        ctx.params = params
        core.CTX = ctx
        outcome = 'done'
        if first:
            sys.setprofile(tracer)
        try:
            harness(ctx, **params)
        except Abort:
            outcome = 'abort'
        except Unsupported as e:
            outcome = 'unsupported'
            if len(res['unsupported']) < 5:
                res['unsupported'].append(str(e))
        except RecursionError as e:
            outcome = 'error'
            res['errors'].append(f'RecursionError {e}')
        except Exception as e:       # noqa  -- an exception escaping the harness is a harness/engine problem
            outcome = 'error'
            if len(res['errors']) < 5:
                res['errors'].append(f'{type(e).__name__}: {e}\n{traceback.format_exc()[-1500:]}')
        finally:
            if first:
                sys.setprofile(None)
                first = False
        res['queries'] += ctx.nqueries
        # ---- obligations met on this path
        path_has_sat = False
        wit = None
        relaxed = None
        replay_cache = {}
        for ob in ctx.obligations:
            res['obligations'] += 1
            names.add(ob['name'])
            st = ob['status']
            if st == 'unsat':
                res['discharged'] += 1
                if ob.get('how') == 'constant-folded':
                    res['constant_folded'] += 1
            elif st == 'sat':
                path_has_sat = True
                cctx, err = run_concrete(harness, params, ob['model'], ob['choices'])
                reproduced = (cctx.conc_results.get(ob['name']) is False)
                rec = dict(harness=name, params=res['params'], obligation=ob['name'], values=ob['model'],
                           choices=ob['choices'], info=ob.get('info'), replay_error=err,
                           failed_in_replay=[k for k, v in cctx.conc_results.items() if v is False])
                if reproduced:
                    if len(res['violations']) < 20:
                        res['violations'].append(rec)
                else:
                    if len(res['undecided']) < 20:
                        res['undecided'].append(dict(rec, why='solver model did not reproduce on the float code'))
                    else:
                        res['undecided'].append(dict(obligation=ob['name'], why='spurious'))
            else:
                # refuting direction: the solver could not decide the negated obligation; take a model of the path condition
                # alone and evaluate the obligation on the real float code at that point
                if 'wit' not in locals() or wit is None:
                    wit = ctx.path_witness()
                rec = None
                cands = [wit[1]] if wit[0] == 'sat' else []
                if not cands:
                    if relaxed is None:
                        relaxed = ctx.relaxed_models(3)
                    cands = relaxed
                for cand in cands:
                    key = json.dumps(cand, sort_keys=True, default=str)
                    if key not in replay_cache:
                        replay_cache[key] = run_concrete(harness, params, cand, dict(ctx.choices))
                    cctx, err = replay_cache[key]
                    if cctx.conc_results.get(ob['name']) is False:
                        rec = dict(harness=name, params=res['params'], obligation=ob['name'], values=cand, choices=dict(ctx.choices),
                                   info=ob.get('info'), replay_error=err, found_by='model of the (relaxed) path condition + replay',
                                   failed_in_replay=[k for k, v in cctx.conc_results.items() if v is False])
                        break
                if rec is not None:
                    path_has_sat = True
                    if len(res['violations']) < 20:
                        res['violations'].append(rec)
                else:
                    res['undecided'].append(dict(harness=name, obligation=ob['name'], why=f'solver answered {st}'))
        # ---- reachability witness of the path
        if outcome in ('done',):
            res['paths'] += 1
            if (res['paths'] - 1) % witness_every == 0 and not path_has_sat:
                st, model = ctx.path_witness()
                if st == 'sat':
                    cctx, err = run_concrete(harness, params, model, dict(ctx.choices))
                    bad = [k for k, v in cctx.conc_results.items() if v is False]
                    if err is None and not bad and cctx.conc_results:
                        res['witnesses_validated'] += 1
                        if len(res['samples']) < max_samples:
                            res['samples'].append(dict(harness=name, inputs=model, choices=dict(ctx.choices),
                                                       decisions=[d.options[d.idx] if not isinstance(d.options[d.idx], bool)
                                                                  else bool(d.options[d.idx]) for d in ctx.decisions][:40],
                                                       obligations=[o['name'] for o in ctx.obligations][:40]))
                    elif len(res['witness_mismatch']) < 10:
                        res['witness_mismatch'].append(dict(inputs=model, choices=dict(ctx.choices), error=err, failed=bad))
                elif st == 'unsat':
                    res['paths'] -= 1
                    res['infeasible_paths'] += 1
                else:
                    res['witness_unknown'] += 1
        elif outcome == 'abort':
            res['aborted_paths'] += 1
        res['forks'] += ctx.nforks
        res['decisions'] = res.get('decisions', 0) + ctx.pos
        res['solver_s'] += ctx.solver_s
        for a in ctx.assumed:
            if a not in res['assumed']:
                res['assumed'].append(a)
        # ---- backtrack
        prefix = ctx.decisions[:ctx.pos] if outcome != 'error' else ctx.decisions[:ctx.pos]
        while prefix and prefix[-1].idx >= len(prefix[-1].options) - 1:
            prefix.pop()
        if not prefix:
            res['exhaustive'] = not res['unsupported'] and not res['errors']
            done = True
        else:
            prefix[-1].idx += 1
        if stop_on_violation and res['violations']:
            res['exhaustive'] = False
            break
        if not done and (res['paths'] + res['aborted_paths'] + res['infeasible_paths'] >= max_paths or
                         time.time() - t_start > budget_s):
            res['exhaustive'] = False
            res['stopped'] = 'budget'
            break
    core.CTX = None
    res['functions'] = sorted(tracer.seen)
    res['obligation_names'] = sorted(names)[:200]
    res['wall_s'] = round(time.time() - t_start, 2)
    res['solver_s'] = round(res['solver_s'], 2)
    return res
