"""symx core: symbolic execution of real numeric Python/numpy code by operator overloading.

SR  symbolic real  (z3 Real term, optional exact log-linear "dB" form  k + sum c_j*log10(A_j))
SI  symbolic int   (z3 Int term; value-forked when used as an index)
SB  symbolic bool  (z3 Bool term; bool() forks the path)

A harness is a function h(ctx) that builds inputs with ctx.real()/ctx.int()/ctx.choice(), calls the real code and
states obligations with ctx.prove(name, cond).  The same harness runs in two modes:
  mode 'sym'  : inputs are symbols, branches fork (DFS by re-execution under a decision prefix), obligations go to z3
  mode 'conc' : inputs are floats taken from a solver model; ordinary execution of the real code (replay)
"""
import math
import sys
import time
from fractions import Fraction

import numpy as np
import z3

from .poly import Normaliser, Poly, RF, TooBig, ONE, rf_as_monomial


class Abort(BaseException):
    """path is infeasible / cut (BaseException so that gnpy's `except Exception` does not swallow it)"""


class Unsupported(BaseException):
    """operation outside the symbolic fragment; the harness result is reported as an engine limitation"""


class Budget(BaseException):
    pass


CTX = None
sys.set_int_max_str_digits(0)
SNAP_DB = Fraction(1, 10 ** 12)


def cur():
    return CTX


def frac(x):
    """exact rational standing for a Python number: ints exactly, floats as the shortest decimal that denotes them"""
    if isinstance(x, Fraction):
        return x
    if isinstance(x, (bool, np.bool_)):
        return Fraction(int(x))
    if isinstance(x, (int, np.integer)):
        return Fraction(int(x))
    f = float(x)
    if math.isinf(f) or math.isnan(f):
        raise Unsupported(f'non-finite constant {f}')
    return Fraction(repr(f))


def zval(fr):
    if fr.denominator == 1:
        return z3.RealVal(fr.numerator)
    return z3.RealVal(f'{fr.numerator}/{fr.denominator}')


def is_num(x):
    return isinstance(x, (int, float, np.integer, np.floating, Fraction)) and not isinstance(x, (bool, np.bool_))


def _map(arr, f):
    out = np.empty(arr.shape, dtype=object)
    for idx in np.ndindex(arr.shape):
        out[idx] = f(arr[idx])
    return out


# --------------------------------------------------------------------------------------------------------- context

class Decision:
    __slots__ = ('idx', 'options', 'kind')

    def __init__(self, options, kind):
        self.idx = 0
        self.options = options
        self.kind = kind


class Ctx:
    def __init__(self, mode='sym', prefix=None, values=None, choices=None, opts=None):
        self.mode = mode
        self.opts = dict(branch_timeout_ms=300, query_timeout_ms=10000, max_enum=64)
        if opts:
            self.opts.update(opts)
        self.decisions = prefix or []
        self.pos = 0
        self.values = values or {}
        self.choices_in = choices or {}
        self.choices = {}
        self.inputs = {}           # name -> z3 var
        self.obligations = []      # dicts
        self.conc_results = {}     # name -> bool (conc mode)
        self.notes = []
        self.assumed = []
        self.nfresh = 0
        self.nqueries = 0
        self.solver_s = 0.0
        self.norm = Normaliser()
        self.positive = set()      # z3 var ids known > 0
        self.nonneg = set()
        self.atoms = []            # (key, term, rf) for log10 atoms
        self.fnapps = {}           # fname -> list of (arg_rf, arg_term, result SR)
        self.k10 = {}              # Fraction in [0,1) -> z3 var
        self.p10inv = {}           # id of an opaque 10**x variable -> (var, x)
        self.nforks = 0
        if mode == 'sym':
            self.solver = z3.Solver()
            self.solver.set('timeout', self.opts['query_timeout_ms'])
            self.pc = []

    # ----- inputs
    def _register(self, name, v):
        if name in self.inputs:
            raise RuntimeError(f'duplicate input {name}')
        self.inputs[name] = v

    def real(self, name, lo=None, hi=None, lo_strict=False, hi_strict=False):
        if self.mode == 'conc':
            if name not in self.values:
                # input created after the obligation whose model is replayed: any value inside the bounds
                if lo is not None and hi is not None:
                    return (float(lo) + float(hi)) / 2
                if lo is not None:
                    return float(lo) + (1.0 if float(lo) == 0 or lo_strict else 0.0) * max(1.0, abs(float(lo)))
                if hi is not None:
                    return float(hi) - 1.0
                return 1.0
            return float(self.values[name])
        v = z3.Real(name)
        self._register(name, v)
        if lo is not None:
            lo = frac(lo)
            self.solver.add(v > zval(lo) if lo_strict else v >= zval(lo))
            if lo > 0 or (lo == 0 and lo_strict):
                self.positive.add(v.get_id())
            if lo >= 0:
                self.nonneg.add(v.get_id())
        if hi is not None:
            hi = frac(hi)
            self.solver.add(v < zval(hi) if hi_strict else v <= zval(hi))
        return SR(t=v)

    def pos_real(self, name, hi=None):
        return self.real(name, lo=0, lo_strict=True, hi=hi)

    def int(self, name, lo, hi):
        """symbolic integer in [lo, hi]"""
        if self.mode == 'conc':
            return int(self.values.get(name, lo))
        v = z3.Int(name)
        self._register(name, v)
        self.solver.add(v >= lo, v <= hi)
        return SI(v)

    def choice(self, name, options):
        """concrete value-fork over a list of python values (shape parameters)"""
        options = list(options)
        if self.mode == 'conc':
            i = self.choices_in.get(name, 0)
            self.choices[name] = i
            return options[i]
        i = self._decide(list(range(len(options))), 'choice')
        self.choices[name] = i
        return options[i]

    def fresh(self, base, sort='real'):
        self.nfresh += 1
        return (z3.Real if sort == 'real' else z3.Int)(f'{base}!{self.nfresh}')

    def assume(self, cond, note=None):
        """restrict the path (harness precondition). cond: bool | SB"""
        if self.mode == 'conc':
            if not bool(cond):
                raise Abort('precondition false in replay')
            return
        if isinstance(cond, (bool, np.bool_)):
            if not cond:
                raise Abort('precondition false')
            return
        self.solver.add(cond.e)
        self.pc.append(cond.e)
        if note:
            self.assumed.append(note)

    # ----- branching
    def _decide(self, options, kind):
        if self.pos < len(self.decisions):
            d = self.decisions[self.pos]
            self.pos += 1
            return d.options[d.idx]
        d = Decision(options, kind)
        self.decisions.append(d)
        self.pos += 1
        if len(options) > 1:
            self.nforks += 1
        return options[0]

    def _feasible(self, e, timeout_ms):
        self.nqueries += 1
        t0 = time.time()
        s = self.solver
        s.push()
        s.set('timeout', timeout_ms)
        s.add(e)
        r = s.check()
        s.pop()
        s.set('timeout', self.opts['query_timeout_ms'])
        self.solver_s += time.time() - t0
        return r != z3.unsat

    def branch(self, e):
        e = z3.simplify(e)
        if z3.is_true(e):
            return True
        if z3.is_false(e):
            return False
        if self.pos < len(self.decisions):
            d = self.decisions[self.pos]
            self.pos += 1
            val = d.options[d.idx]
        else:
            tmo = self.opts['branch_timeout_ms']
            ft = self._feasible(e, tmo)
            ff = self._feasible(z3.Not(e), tmo)
            opts = ([True] if ft else []) + ([False] if ff else [])
            if not opts:
                raise Abort('infeasible path')
            val = self._decide(opts, 'branch')
        c = e if val else z3.Not(e)
        self.solver.add(c)
        self.pc.append(c)
        return val

    def enumerate_int(self, t):
        """value-fork an integer term: returns a concrete python int (one path per feasible value)"""
        t = z3.simplify(t)
        if z3.is_int_value(t):
            return t.as_long()
        if self.pos < len(self.decisions):
            d = self.decisions[self.pos]
            self.pos += 1
            val = d.options[d.idx]
        else:
            vals = []
            s = self.solver
            s.push()
            t0 = time.time()
            while len(vals) <= self.opts['max_enum']:
                self.nqueries += 1
                r = s.check()
                if r != z3.sat:
                    break
                v = s.model().eval(t, model_completion=True).as_long()
                vals.append(v)
                s.add(t != v)
            s.pop()
            self.solver_s += time.time() - t0
            if len(vals) > self.opts['max_enum']:
                raise Unsupported(f'integer with more than {self.opts["max_enum"]} feasible values used as index')
            if not vals:
                raise Abort('infeasible path')
            vals.sort()
            val = self._decide(vals, 'int')
        c = t == val
        self.solver.add(c)
        self.pc.append(c)
        return val

    # ----- obligations
    def prove(self, name, cond, info=None):
        if self.mode == 'conc':
            ok = bool(cond)
            # an obligation name may be met several times on a path: all must hold
            self.conc_results[name] = self.conc_results.get(name, True) and ok
            return
        ob = dict(name=name, status=None, info=info)
        self.obligations.append(ob)
        if isinstance(cond, (bool, np.bool_)):
            if cond:
                ob['status'] = 'unsat'
                ob['how'] = 'constant-folded'
                return
            e = z3.BoolVal(False)
        else:
            e = cond.e
        t0 = time.time()
        self.nqueries += 1
        s = self.solver
        s.push()
        s.add(z3.Not(e))
        r = s.check()
        model = s.model() if r == z3.sat else None
        s.pop()
        if r == z3.unknown:
            r, model = self._check_fresh(z3.Not(e))
        self.solver_s += time.time() - t0
        ob['status'] = str(r)
        if model is not None:
            ob['model'] = self.model_values(model)
            ob['choices'] = dict(self.choices)

    def _check_fresh(self, extra):
        """non-incremental re-check (lets z3 pick nlsat for pure nonlinear real problems)"""
        s = z3.Solver()
        s.set('timeout', self.opts['query_timeout_ms'])
        for a in self.solver.assertions():
            s.add(a)
        s.add(extra)
        r = s.check()
        return r, (s.model() if r == z3.sat else None)

    def model_values(self, model):
        out = {}
        for name, v in self.inputs.items():
            val = model.eval(v, model_completion=True)
            out[name] = _z3num(val)
        return out

    def path_witness(self):
        """model of the path condition alone (reachability witness)"""
        t0 = time.time()
        self.nqueries += 1
        self.solver.set('timeout', self.opts.get('witness_timeout_ms', self.opts['query_timeout_ms']))
        r = self.solver.check()
        self.solver.set('timeout', self.opts['query_timeout_ms'])
        model = self.solver.model() if r == z3.sat else None
        if r == z3.unknown:
            r, model = self._check_fresh(z3.BoolVal(True))
        self.solver_s += time.time() - t0
        if r == z3.sat:
            return 'sat', self.model_values(model)
        return str(r), None

    def relaxed_models(self, n=3):
        """candidate input points for the refuting direction when the exact path condition is too hard for the solver: models of
        the LINEAR part of the path condition (bounds of the inputs and linear branch constraints).  They are only candidates:
        whatever they are, a replay of the real float code in which an obligation fails is a genuine counterexample."""
        def linear(t):
            k = t.decl().kind()
            if k in (z3.Z3_OP_MUL,):
                nonconst = [a for a in t.children() if not (z3.is_rational_value(a) or z3.is_int_value(a))]
                if len(nonconst) > 1:
                    return False
            if k in (z3.Z3_OP_DIV, z3.Z3_OP_POWER, z3.Z3_OP_IDIV, z3.Z3_OP_MOD):
                if not all(z3.is_rational_value(a) or z3.is_int_value(a) for a in t.children()[1:]):
                    return False
            if k == z3.Z3_OP_UNINTERPRETED and t.num_args() > 0:
                return False
            return all(linear(c) for c in t.children())
        s = z3.Solver()
        s.set('timeout', 2000)
        for a in self.solver.assertions():
            try:
                if linear(a):
                    s.add(a)
            except Exception:
                pass
        out = []
        for _ in range(n):
            if s.check() != z3.sat:
                break
            m = s.model()
            vals = self.model_values(m)
            out.append(vals)
            # move away from this point on every real input
            s.add(z3.Or(*[v != m.eval(v, model_completion=True) for v in self.inputs.values()]))
        return out

    # ----- abstracted functions with exact congruence
    def rf(self, t):
        from . import poly as _poly
        b = self.opts.get('rf_budget')
        if not b:
            return self.norm.to_rf(t)
        old = (_poly.MAX_MONOMIALS, _poly.MAX_BITS)
        _poly.MAX_MONOMIALS, _poly.MAX_BITS = b
        try:
            return self.norm.to_rf(t)
        finally:
            _poly.MAX_MONOMIALS, _poly.MAX_BITS = old

    def fn_app(self, fname, arg, mk):
        """application of an abstracted function to SR arg: same result object for arguments that are equal as
        rational functions (exact polynomial identity test)."""
        lst = self.fnapps.setdefault(fname, [])
        aid = arg.t.get_id()
        for (rf0, a0, res0) in lst:
            if a0._t is not None and a0._t.get_id() == aid:      # z3 hash-conses terms: same id = same structure
                return res0
        try:
            arf = self.rf(arg.t)
        except TooBig:
            arf = None
        if arf is not None:
            for (rf0, _a0, res0) in lst:
                if rf0 is not None and rf0.equals(arf):
                    return res0
        res = mk()
        lst.append((arf, arg, res))
        return res

    def sign_poly(self, p):
        """+1 / -1 / 0 when the sign of polynomial p is determined by coefficient signs and variable positivity"""
        if p.is_zero():
            return 0
        sgn = None
        for mono, c in p.m.items():
            for vid, e in mono:
                if e % 2 and vid not in self.positive:
                    return None
            s = 1 if c > 0 else -1
            if sgn is None:
                sgn = s
            elif sgn != s:
                return None
        return sgn


def _z3num(val):
    if z3.is_int_value(val):
        return val.as_long()
    if z3.is_rational_value(val):
        return float(Fraction(val.numerator_as_long(), val.denominator_as_long()))
    if z3.is_algebraic_value(val):
        return float(val.approx(20).as_fraction())
    try:
        return float(val.as_decimal(17).rstrip('?'))
    except Exception:
        return None


# --------------------------------------------------------------------------------------------------- symbolic bool

class SB:
    __slots__ = ('e',)
    __array_priority__ = 1000

    def __init__(self, e):
        self.e = e

    def __bool__(self):
        return CTX.branch(self.e)

    @staticmethod
    def lift(o):
        if isinstance(o, SB):
            return o.e
        return z3.BoolVal(bool(o))

    def __and__(self, o):
        if isinstance(o, np.ndarray):
            return _map(o, lambda x: self & x)
        return SB(z3.And(self.e, SB.lift(o)))
    __rand__ = __and__

    def __or__(self, o):
        if isinstance(o, np.ndarray):
            return _map(o, lambda x: self | x)
        return SB(z3.Or(self.e, SB.lift(o)))
    __ror__ = __or__

    def __invert__(self):
        return SB(z3.Not(self.e))

    def __mul__(self, o):       # numpy code uses bool*bool as logical and
        if isinstance(o, (SB, bool, np.bool_)):
            return self.__and__(o)
        if isinstance(o, np.ndarray):
            return _map(o, lambda x: self * x)
        # bool * number: fork
        return o if bool(self) else (o * 0)
    __rmul__ = __mul__

    def __eq__(self, o):
        if isinstance(o, (int, bool, np.integer, np.bool_)) and not isinstance(o, SB):
            return self if o else SB(z3.Not(self.e))
        if isinstance(o, SB):
            return SB(self.e == o.e)
        return NotImplemented

    def __ne__(self, o):
        r = self.__eq__(o)
        return NotImplemented if r is NotImplemented else ~r

    __hash__ = object.__hash__

    def __deepcopy__(self, memo):
        return self

    def __repr__(self):
        return f'SB({self.e})'


def _sb(e):
    """z3 bool -> python bool when constant else SB"""
    e = z3.simplify(e)
    if z3.is_true(e):
        return True
    if z3.is_false(e):
        return False
    return SB(e)


# --------------------------------------------------------------------------------------------------- symbolic real

_OPS = {
    'lt': (lambda a, b: a < b), 'le': (lambda a, b: a <= b), 'gt': (lambda a, b: a > b),
    'ge': (lambda a, b: a >= b), 'eq': (lambda a, b: a == b), 'ne': (lambda a, b: a != b),
}
_FLIP = {'lt': 'gt', 'le': 'ge', 'gt': 'lt', 'ge': 'le', 'eq': 'eq', 'ne': 'ne'}


class SR:
    """symbolic real"""
    __slots__ = ('c', '_t', 'll', '_rnd')
    __array_priority__ = 1000

    def __init__(self, t=None, ll=None, c=None):
        self._rnd = None    # number of decimals this value is known to be rounded to
        self.c = c          # Fraction when constant
        self._t = t
        self.ll = ll        # (atoms: dict key -> (SR atom, Fraction coeff), Fraction k) or None
        if c is not None and ll is None:
            self.ll = ({}, c)

    @property
    def t(self):
        if self._t is None:
            if self.c is not None:
                self._t = zval(self.c)
            else:
                # a log-linear value needed as a plain term: opaque L10 atoms
                atoms, k = self.ll
                s = zval(k)
                for a, co in atoms.values():
                    if a.c is not None:
                        s = s + zval(co) * zval(frac(math.log10(float(a.c))))
                    elif a._t is not None and a._t.get_id() in CTX.p10inv:
                        s = s + zval(co) * CTX.p10inv[a._t.get_id()][1].t
                    else:
                        s = s + zval(co) * a.l10var()
                self._t = s
        return self._t

    @staticmethod
    def lift(x):
        if isinstance(x, SR):
            return x
        if isinstance(x, SI):
            return SR(t=z3.ToReal(x.t)) if x.c is None else SR(c=Fraction(x.c))
        if isinstance(x, SB):
            return SR(t=z3.If(x.e, z3.RealVal(1), z3.RealVal(0)))
        if is_num(x) or isinstance(x, (bool, np.bool_)):
            return SR(c=frac(x))
        raise TypeError(f'cannot lift {type(x)}')

    def l10var(self):
        """opaque variable standing for log10(self) (used only when dB values leave the log-linear fragment)"""
        ctx = CTX
        return ctx.fn_app('log10', self, lambda: SR(t=ctx.fresh('l10'))).t

    # ---- arithmetic
    def _ll_comb(self, o, sign):
        a1, k1 = self.ll
        a2, k2 = o.ll
        atoms = dict(a1)
        for key, (a, c) in a2.items():
            if key in atoms:
                nc = atoms[key][1] + sign * c
                if nc == 0:
                    del atoms[key]
                else:
                    atoms[key] = (a, nc)
            else:
                atoms[key] = (a, sign * c)
        k = k1 + sign * k2
        if not atoms:
            return SR(c=k)
        if k != 0 and abs(k) < SNAP_DB and (k1 != 0 or k2 != 0) and abs(k1) > SNAP_DB:
            # difference of two float-evaluated dB constants that denote the same value (e.g. 26 - 10*log10(10**2.6)):
            # snapped to 0 (relative effect < 2.4e-13 in linear units; stated in the evidence assumptions)
            k = Fraction(0)
        return SR(ll=(atoms, k))

    def __add__(s, o):
        if isinstance(o, np.ndarray):
            return _map(o, lambda x: s + x)
        if isinstance(o, (float, np.floating)) and math.isinf(o):
            return float(o)
        o = SR.lift(o)
        if s.c is not None and o.c is not None:
            return SR(c=s.c + o.c)
        if s.c == 0:
            return o
        if o.c == 0:
            return s
        if s.ll is not None and o.ll is not None:
            return s._ll_comb(o, 1)
        return SR(t=s.t + o.t)
    __radd__ = __add__

    def __sub__(s, o):
        if isinstance(o, np.ndarray):
            return _map(o, lambda x: s - x)
        if isinstance(o, (float, np.floating)) and math.isinf(o):
            return -float(o)
        o = SR.lift(o)
        if s.c is not None and o.c is not None:
            return SR(c=s.c - o.c)
        if o.c == 0:
            return s
        if s.ll is not None and o.ll is not None:
            return s._ll_comb(o, -1)
        return SR(t=s.t - o.t)

    def __rsub__(s, o):
        if isinstance(o, np.ndarray):
            return _map(o, lambda x: x - s)
        if isinstance(o, (float, np.floating)) and math.isinf(o):
            return float(o)
        return SR.lift(o).__sub__(s)

    def __neg__(s):
        return SR(c=Fraction(0)).__sub__(s)

    def __pos__(s):
        return s

    def __mul__(s, o):
        if isinstance(o, np.ndarray):
            return _map(o, lambda x: s * x)
        if isinstance(o, SB):
            return s if bool(o) else SR(c=Fraction(0))
        if isinstance(o, (float, np.floating)) and math.isinf(o):
            sg = s > 0
            return float(o) if bool(sg) else -float(o)
        o = SR.lift(o)
        if s.c is not None and o.c is not None:
            return SR(c=s.c * o.c)
        for a, b in ((s, o), (o, s)):
            if b.c is not None:
                if b.c == 0:
                    return SR(c=Fraction(0))
                if b.c == 1:
                    return a
                if a.ll is not None:
                    atoms = {k: (t, c * b.c) for k, (t, c) in a.ll[0].items()}
                    return SR(ll=(atoms, a.ll[1] * b.c))
                return SR(t=a.t * zval(b.c))
        return SR(t=s.t * o.t)
    __rmul__ = __mul__

    def __truediv__(s, o):
        if isinstance(o, np.ndarray):
            return _map(o, lambda x: s / x)
        if isinstance(o, (float, np.floating)) and math.isinf(o):
            return SR(c=Fraction(0))
        o = SR.lift(o)
        if o.c is not None:
            if o.c == 0:
                # numpy semantics: x/0 -> +-inf (nan for 0/0 is outside the fragment)
                sg = s > 0
                return math.inf if bool(sg) else -math.inf
            return s * SR(c=1 / o.c)
        if s.c is not None and s.c == 0:
            return SR(c=Fraction(0))       # 0/x for a non-zero x
        ctx = CTX
        nonzero = False
        try:
            rf = ctx.rf(o.t)
            sn, sd = ctx.sign_poly(rf.n), ctx.sign_poly(rf.d)
            nonzero = sn in (1, -1) and sd in (1, -1)
        except TooBig:
            pass
        if not nonzero:
            ctx.solver.add(o.t != 0)       # float division by a symbolic zero is outside the claim (recorded)
        return SR(t=s.t / o.t)

    def __rtruediv__(s, o):
        if isinstance(o, np.ndarray):
            return _map(o, lambda x: x / s)
        return SR.lift(o).__truediv__(s)

    def __floordiv__(s, o):
        return (s / o).floor()

    def __rfloordiv__(s, o):
        return (SR.lift(o) / s).floor()

    def __mod__(s, o):
        q = (s / o).floor()
        return s - q * o

    def __pow__(s, e):
        if isinstance(e, np.ndarray):
            return _map(e, lambda x: s ** x)
        if isinstance(e, SR) and e.c is not None:
            e = e.c
        if is_num(e):
            fe = frac(e)
            if fe.denominator == 1 and abs(fe) <= 8:
                n = int(fe)
                if s.c is not None:
                    return SR(c=s.c ** n)
                r = None
                for _ in range(abs(n)):
                    r = s if r is None else r * s
                if r is None:
                    return SR(c=Fraction(1))
                return r if n > 0 else SR(c=Fraction(1)) / r
            if fe == Fraction(1, 2):
                return s.sqrt()
            if s.c is not None and s.c > 0:
                return SR(c=frac(float(s.c) ** float(fe)))
        raise Unsupported(f'pow with exponent {e!r}')

    def __rpow__(s, b):
        if is_num(b) and frac(b) == 10:
            return s.exp10()
        if is_num(b) and frac(b) > 0:
            # b**s = 10**(s*log10 b)
            return (s * SR(c=frac(math.log10(float(b))))).exp10()
        raise Unsupported(f'rpow base {b!r}')

    # ---- dB algebra
    def _exp10_opaque(s):
        ctx = CTX

        def mk():
            v = ctx.fresh('p10')
            ctx.solver.add(v > 0)
            ctx.positive.add(v.get_id())
            ctx.p10inv[v.get_id()] = (v, s)       # log10 of this variable is exactly s
            return SR(t=v)
        return ctx.fn_app('exp10', s, mk)

    def exp10(s):
        if s.c is not None:
            return pow10const(s.c)
        if s.ll is None:
            return s._exp10_opaque()
        atoms, k = s.ll
        for a, c in atoms.values():
            if (c.denominator != 1 or abs(c) > 8) and abs(c) != Fraction(1, 2):
                # outside the exact fragment (non-integer power of a symbolic quantity): sound degradation to an
                # uninterpreted positive value, identified only with applications to an equal argument
                return s._exp10_opaque()
        res = pow10const(k)
        for a, c in atoms.values():
            if c == Fraction(1, 2):
                res = res * a.sqrt()
                continue
            if c == Fraction(-1, 2):
                res = res / a.sqrt()
                continue
            n = int(c)
            p = a ** abs(n)
            res = res * p if n > 0 else res / p
        return SR(t=res.t)

    def log10(s):
        if s.c is not None:
            if s.c <= 0:
                raise Unsupported('log10 of non-positive constant')
            return _log10_of_const(s.c)
        ctx = CTX
        tid = s.t.get_id()
        for key, a0, rf0 in ctx.atoms:
            if a0._t is not None and a0._t.get_id() == tid:
                return SR(ll=({key: (a0, Fraction(1))}, Fraction(0)))
        # decompose monomial/monomial with positive variables into a sum of variable atoms
        try:
            rf = ctx.rf(s.t).reduce_monomials()
        except TooBig:
            rf = None
        mono = rf_as_monomial(rf) if rf is not None else None
        if mono is not None:
            coef, mn, md = mono
            if coef > 0 and all(v in ctx.positive for v, _ in mn + md):
                atoms = {}
                for mono, sg in ((mn, 1), (md, -1)):
                    for vid, e in mono:
                        a = SR(t=ctx.norm.vars[vid])
                        key = ('v', vid)
                        c0 = atoms.get(key, (a, Fraction(0)))[1] + sg * e
                        if c0 == 0:
                            atoms.pop(key, None)
                        else:
                            atoms[key] = (a, c0)
                lc = _log10_of_const(coef)
                if not atoms:
                    return lc
                return SR(ll=(atoms, Fraction(0)))._ll_comb(lc, 1)
        # general positive term: one atom, identified up to rational-function equality
        for key, a0, rf0 in ctx.atoms:
            if rf is not None and rf0 is not None and rf0.equals(rf):
                return SR(ll=({key: (a0, Fraction(1))}, Fraction(0)))
        key = ('a', len(ctx.atoms))
        ctx.atoms.append((key, s, rf))
        return SR(ll=({key: (s, Fraction(1))}, Fraction(0)))

    # ---- other functions (abstracted, exact congruence)
    def sqrt(s):
        if s.c is not None:
            if s.c < 0:
                raise Unsupported('sqrt of negative constant')
            r = Fraction(math.isqrt(s.c.numerator), 1) / Fraction(math.isqrt(s.c.denominator), 1)
            if r * r == s.c:
                return SR(c=r)
            return SR(c=frac(math.sqrt(float(s.c))))
        ctx = CTX

        def mk():
            v = ctx.fresh('sqrt')
            ctx.solver.add(v >= 0, v * v == s.t)
            ctx.nonneg.add(v.get_id())
            return SR(t=v)
        return ctx.fn_app('sqrt', s, mk)

    def _abstract(s, fname, pyfn, mkfacts=None):
        if s.c is not None:
            return SR(c=frac(pyfn(float(s.c))))
        ctx = CTX

        def mk():
            v = ctx.fresh(fname)
            r = SR(t=v)
            if mkfacts:
                mkfacts(ctx, v, s)
            return r
        return ctx.fn_app(fname, s, mk)

    def exp(s):
        def facts(ctx, v, arg):
            ctx.solver.add(v > 0)
            ctx.positive.add(v.get_id())
            if ctx.opts.get('exp_monotone'):
                # exp is strictly increasing: order (and equality) of two applications follows that of their arguments
                for (_rf0, a0, r0) in ctx.fnapps.get('exp', []):
                    if a0._t is not None:
                        ctx.solver.add((arg.t > a0.t) == (v > r0.t))
                        ctx.solver.add((arg.t == a0.t) == (v == r0.t))
            # exp(a)*exp(-a) = 1 for syntactically opposite arguments already seen
            for (rf0, a0, r0) in ctx.fnapps.get('exp', []):
                try:
                    if rf0 is not None and (rf0 + ctx.rf(arg.t)).n.is_zero():
                        ctx.solver.add(v * r0.t == 1)
                except TooBig:
                    pass
        return s._abstract('exp', math.exp, facts)

    def log(s):
        return s._abstract('ln', math.log)

    def arcsinh(s):
        return s._abstract('asinh', math.asinh)

    def arctan(s):
        return s._abstract('atan', math.atan)

    def __abs__(s):
        if s.c is not None:
            return SR(c=abs(s.c))
        if bool(s >= 0):
            return s
        return -s

    def floor(s):
        if s.c is not None:
            return SI(c=math.floor(s.c))
        ctx = CTX
        v = ctx.fresh('floor', 'int')
        ctx.solver.add(z3.ToReal(v) <= s.t, s.t < z3.ToReal(v) + 1)
        return SI(v)

    def ceil(s):
        if s.c is not None:
            return SI(c=math.ceil(s.c))
        ctx = CTX
        v = ctx.fresh('ceil', 'int')
        ctx.solver.add(z3.ToReal(v) >= s.t, s.t > z3.ToReal(v) - 1)
        return SI(v)

    def __floor__(s):
        return s.floor()

    def __ceil__(s):
        return s.ceil()

    def __round__(s, nd=None):
        """Python round(): half to even, exact over the reals"""
        if nd is None or nd == 0:
            if s.c is not None:
                r = SI(c=round(s.c))
                return r if nd is None else SR(c=Fraction(r.c))
            ctx = CTX
            key = ('round', s.t.get_id())
            hit = ctx.fnapps.setdefault('round', {}).get(key) if isinstance(ctx.fnapps.get('round', {}), dict) else None
            if hit is not None:
                return SI(hit[1]) if nd is None else SR(t=z3.ToReal(hit[1]))
            v = ctx.fresh('round', 'int')
            ctx.fnapps['round'][key] = (s.t, v)       # rounding is a function: same argument, same result
            d = z3.ToReal(v) - s.t
            half = z3.RealVal('1/2')
            ctx.solver.add(d <= half, -d <= half, z3.Implies(z3.Or(d == half, -d == half), v % 2 == 0))
            return SI(v) if nd is None else SR(t=z3.ToReal(v))
        if s._rnd is not None and s._rnd <= int(nd):
            return s            # already a multiple of 10**-nd: rounding again is the identity
        scale = Fraction(10) ** int(nd)
        r = SR.lift(round(s * scale, 0)) / scale
        if isinstance(r, SR):
            r._rnd = int(nd)
        return r

    def round(s, nd=0):
        return s.__round__(nd)

    def rint(s):
        return s.__round__(0)

    def conjugate(s):
        return s

    # numpy scalar look-alike attributes (0-d results of object-array arithmetic are unwrapped to the scalar itself)
    size = 1
    ndim = 0
    shape = ()

    @property
    def real(s):
        return s

    # ---- comparisons
    def _cmp(s, o, opn):
        if isinstance(o, np.ndarray):
            return _map(o, lambda x: s._cmp(x, opn))
        if o is None:
            return opn == 'ne'
        if isinstance(o, (float, np.floating)) and math.isinf(o):
            pos = o > 0
            return {'lt': pos, 'le': pos, 'gt': not pos, 'ge': not pos, 'eq': False, 'ne': True}[opn]
        try:
            o = SR.lift(o)
        except TypeError:
            return NotImplemented
        op = _OPS[opn]
        if s.c is not None and o.c is not None:
            return op(s.c, o.c)
        ctx = CTX
        d = s - o
        if d.c is not None:
            return op(d.c, 0)
        if d.ll is not None and all(a.c is None and a._t is not None and a._t.get_id() in ctx.p10inv
                                    for a, _ in d.ll[0].values()):
            # every atom is log10 of an opaque 10**x: the value is linear in the x's
            return SR(t=d.t)._cmp_rf(SR(c=Fraction(0)), opn)
        if d.ll is not None:
            # sign of  k + sum c_j log10(A_j)  ==  sign of  log10(10^k * prod A_j^c_j): compare products
            atoms, k = d.ll
            den = 1
            for a, c in atoms.values():
                den = den * c.denominator // math.gcd(den, c.denominator)
            g = 0
            for a, c in atoms.values():
                g = math.gcd(g, abs(int(c * den)))
            den = Fraction(den, g)       # positive scaling: sign preserved, integer coprime exponents
            if all(abs(c * den) <= 8 for a, c in atoms.values()):
                num = pow10const(k * den)
                dn = SR(c=Fraction(1))
                for a, c in atoms.values():
                    n = int(c * den)
                    if n > 0:
                        num = num * a ** n
                    else:
                        dn = dn * a ** (-n)
                return SR(t=num.t)._cmp_rf(SR(t=dn.t), opn)
        return s._cmp_rf(o, opn)

    def _cmp_rf(s, o, opn):
        ctx = CTX
        op = _OPS[opn]
        try:
            rf = (ctx.rf(s.t) - ctx.rf(o.t)).reduce_monomials()
        except TooBig:
            return _sb(op(s.t, o.t))
        if rf.n.is_zero():
            return op(0, 0)
        sd = ctx.sign_poly(rf.d)
        if sd is None:
            return _sb(op(s.t, o.t))
        sn = ctx.sign_poly(rf.n)
        if sn is not None:
            return op(sn * sd, 0)
        n = rf.n
        # drop a positive monomial content
        content = n.monomial_content()
        if content and all(v in ctx.positive or e % 2 == 0 for v, e in content.items()):
            n = n.div_monomial(content)
        nz = ctx.norm.poly_to_z3(n)
        return _sb(op(nz, 0) if sd > 0 else _OPS[_FLIP[opn]](nz, 0))

    def __lt__(s, o): return s._cmp(o, 'lt')
    def __le__(s, o): return s._cmp(o, 'le')
    def __gt__(s, o): return s._cmp(o, 'gt')
    def __ge__(s, o): return s._cmp(o, 'ge')
    def __eq__(s, o):
        r = s._cmp(o, 'eq')
        if isinstance(r, SB) and CTX is not None and CTX.opts.get('no_ties') and isinstance(o, SR):
            # generic-position assumption requested by the harness: two distinct symbolic quantities are never exactly
            # equal (ties are measure-zero and, where used, not ruled by the property); recorded in the evidence
            ctx = CTX
            ne = z3.Not(r.e)
            if ctx._feasible(ne, ctx.opts['branch_timeout_ms']):
                ctx.solver.add(ne)
                ctx.pc.append(ne)
                if 'no exact ties between distinct symbolic quantities' not in ctx.assumed:
                    ctx.assumed.append('no exact ties between distinct symbolic quantities')
                return False
            return True
        return r

    def __ne__(s, o):
        r = s.__eq__(o)
        if isinstance(r, SB):
            return ~r
        if r is NotImplemented:
            return r
        return not r
    __hash__ = object.__hash__

    def __bool__(s):
        r = s._cmp(0, 'ne')
        return bool(r)

    def __float__(s):
        if s.c is not None:
            return float(s.c)
        raise Unsupported('float() of a symbolic real')

    def __int__(s):
        if s.c is not None:
            return int(s.c)
        # int() truncates toward zero
        if bool(s >= 0):
            return int(s.floor())
        return int(s.ceil())

    def __deepcopy__(s, memo):
        return s

    def __copy__(s):
        return s

    def __repr__(s):
        if s.c is not None:
            return f'SR({float(s.c)!r})'
        if s._t is None:
            return 'SR(<loglinear>)'
        return f'SR({z3.simplify(s._t)})'

    def __format__(s, spec):
        return repr(s)


# ---------------------------------------------------------------------------------------------------- symbolic int

class SI:
    __slots__ = ('c', 't_')
    __array_priority__ = 1000

    def __init__(self, t=None, c=None):
        self.c = c
        self.t_ = t

    @property
    def t(self):
        if self.t_ is None:
            self.t_ = z3.IntVal(self.c)
        return self.t_

    @staticmethod
    def lift(x):
        if isinstance(x, SI):
            return x
        if isinstance(x, (int, np.integer)) and not isinstance(x, (bool, np.bool_)):
            return SI(c=int(x))
        if isinstance(x, (bool, np.bool_)):
            return SI(c=int(x))
        return None

    def _bin(s, o, f, zf):
        if isinstance(o, np.ndarray):
            return _map(o, lambda x: s._bin(x, f, zf))
        oi = SI.lift(o)
        if oi is None:
            return NotImplemented
        if s.c is not None and oi.c is not None:
            return SI(c=f(s.c, oi.c))
        return SI(zf(s.t, oi.t))

    def __add__(s, o):
        r = s._bin(o, lambda a, b: a + b, lambda a, b: a + b)
        return SR.lift(s) + o if r is NotImplemented else r
    __radd__ = __add__

    def __sub__(s, o):
        r = s._bin(o, lambda a, b: a - b, lambda a, b: a - b)
        return SR.lift(s) - o if r is NotImplemented else r

    def __rsub__(s, o):
        oi = SI.lift(o)
        if oi is None:
            return o - SR.lift(s)
        return oi - s

    def __mul__(s, o):
        r = s._bin(o, lambda a, b: a * b, lambda a, b: a * b)
        return SR.lift(s) * o if r is NotImplemented else r
    __rmul__ = __mul__

    def __neg__(s):
        return SI(c=-s.c) if s.c is not None else SI(-s.t)

    def __truediv__(s, o):
        return SR.lift(s) / o

    def __rtruediv__(s, o):
        return o / SR.lift(s)

    def __floordiv__(s, o):
        oi = SI.lift(o)
        if oi is not None and oi.c is not None and oi.c > 0:
            if s.c is not None:
                return SI(c=s.c // oi.c)
            return SI(s.t / oi.t)      # z3 int division floors for positive divisors
        return (SR.lift(s) / o).floor()

    def __mod__(s, o):
        oi = SI.lift(o)
        if oi is not None and oi.c is not None and oi.c > 0:
            if s.c is not None:
                return SI(c=s.c % oi.c)
            return SI(s.t % oi.t)
        return SR.lift(s) % o

    def _cmp(s, o, opn):
        if isinstance(o, np.ndarray):
            return _map(o, lambda x: s._cmp(x, opn))
        if o is None:
            return opn == 'ne'
        oi = SI.lift(o)
        if oi is None:
            return SR.lift(s)._cmp(o, opn)
        op = _OPS[opn]
        if s.c is not None and oi.c is not None:
            return op(s.c, oi.c)
        return _sb(op(s.t, oi.t))

    def __lt__(s, o): return s._cmp(o, 'lt')
    def __le__(s, o): return s._cmp(o, 'le')
    def __gt__(s, o): return s._cmp(o, 'gt')
    def __ge__(s, o): return s._cmp(o, 'ge')
    def __eq__(s, o): return s._cmp(o, 'eq')
    def __ne__(s, o): return s._cmp(o, 'ne')

    def __hash__(s):
        return hash(int(s))

    def __index__(s):
        if s.c is not None:
            return s.c
        return CTX.enumerate_int(s.t)
    __int__ = __index__

    def __float__(s):
        return float(int(s))

    def __bool__(s):
        return bool(s != 0)

    def __abs__(s):
        if s.c is not None:
            return SI(c=abs(s.c))
        return s if bool(s >= 0) else -s

    def __deepcopy__(s, memo):
        return s

    def __repr__(s):
        return f'SI({s.c if s.c is not None else z3.simplify(s.t)})'


# ------------------------------------------------------------------------------------------------- dB constants

def pow10const(k):
    """10**k for an exact rational k: exact for integer k, otherwise 10^floor(k) * K where K = 10^frac(k) is a named
    real constant with a 1e-13 relative enclosure and the exact algebraic facts we can state (K_f * K_(1-f) = 10)."""
    k = Fraction(k)
    fl = math.floor(k)
    f = k - fl
    if f == 0:
        return SR(c=Fraction(10) ** int(fl))
    ctx = CTX
    if f not in ctx.k10:
        v = z3.Real(f'K10[{f}]')
        x = Fraction(repr(10.0 ** float(f)))
        eps = Fraction(1, 10 ** 13)
        ctx.solver.add(v > zval(x * (1 - eps)), v < zval(x * (1 + eps)))
        ctx.positive.add(v.get_id())
        other = ctx.k10.get(1 - f)
        if other is not None:
            ctx.solver.add(v * other == 10)
        if f == Fraction(1, 2):
            ctx.solver.add(v * v == 10)
        ctx.k10[f] = v
    return SR(t=ctx.k10[f]) * SR(c=Fraction(10) ** int(fl))


_SMALL_PRIMES = [2, 3, 5, 7, 11, 13, 17, 19, 23, 29, 31, 37, 41, 43, 47]


def _log10_of_const(c):
    """log10 of a positive rational, exact: k + sum e_p*log10(p) over small prime factors (constant atoms);
    10**(...) of the result gives the rational back exactly.  Rationals with other factors become one constant atom."""
    c = Fraction(c)
    if c == 1:
        return SR(c=Fraction(0))
    atoms = {}
    k = Fraction(0)
    num, den = c.numerator, c.denominator
    # powers of ten first
    while num % 10 == 0:
        num //= 10
        k += 1
    while den % 10 == 0:
        den //= 10
        k -= 1
    for val, sg in ((num, 1), (den, -1)):
        for p in _SMALL_PRIMES:
            e = 0
            while val % p == 0:
                val //= p
                e += 1
            if e:
                key = ('c', p)
                c0 = atoms.get(key, (None, Fraction(0)))[1] + sg * e
                if c0 == 0:
                    atoms.pop(key, None)
                else:
                    atoms[key] = (SR(c=Fraction(p)), c0)
        if val != 1:
            key = ('c', val)
            c0 = atoms.get(key, (None, Fraction(0)))[1] + sg
            if c0 == 0:
                atoms.pop(key, None)
            else:
                atoms[key] = (SR(c=Fraction(val)), c0)
    # 2 and 5 in equal powers are powers of ten: log10(2)+log10(5) = 1
    if ('c', 2) in atoms and ('c', 5) in atoms:
        e2, e5 = atoms[('c', 2)][1], atoms[('c', 5)][1]
        m = min(e2, e5) if e2 > 0 and e5 > 0 else (max(e2, e5) if e2 < 0 and e5 < 0 else 0)
        if m:
            k += m
            for key, e in ((('c', 2), e2 - m), (('c', 5), e5 - m)):
                if e == 0:
                    del atoms[key]
                else:
                    atoms[key] = (atoms[key][0], e)
    if not atoms:
        return SR(c=k)
    return SR(ll=(atoms, k))


def log10const(c):
    x = math.log10(float(c))
    if abs(x - round(x)) < 1e-12 and Fraction(10) ** round(x) == c:
        return Fraction(round(x))
    return frac(x)


# ------------------------------------------------------------------------------------------------- user helpers

TOL = 1e-9


def _is_sym(x):
    return isinstance(x, (SR, SI, SB))


def eq(a, b, tol=TOL):
    if _is_sym(a) or _is_sym(b):
        if isinstance(a, SI) and not isinstance(b, SR):
            return a == b
        if isinstance(b, SI) and not isinstance(a, SR):
            return b == a
        return SR.lift(a) == b
    if a is None or b is None:
        return a is b
    if isinstance(a, float) and isinstance(b, float) and math.isinf(a) and math.isinf(b):
        return a == b
    return abs(a - b) <= tol * max(abs(a), abs(b)) + 1e-300


def le(a, b, tol=TOL):
    if _is_sym(a) or _is_sym(b):
        return (SR.lift(a) if not isinstance(a, SI) else a) <= b
    return a <= b + tol * max(abs(a), abs(b)) + 1e-15


def ge(a, b, tol=TOL):
    return le(b, a, tol)


def lt(a, b, tol=TOL):
    """strict comparisons are used in preconditions; in replay they are evaluated exactly"""
    if _is_sym(a) or _is_sym(b):
        return (SR.lift(a) if not isinstance(a, SI) else a) < b
    return a < b


def gt(a, b, tol=TOL):
    return lt(b, a, tol)


def And(*cs):
    cs = [c for c in cs]
    if any(isinstance(c, SB) for c in cs):
        if any((not isinstance(c, SB)) and (not bool(c)) for c in cs):
            return False
        return _sb(z3.And(*[c.e for c in cs if isinstance(c, SB)]))
    return all(bool(c) for c in cs)


def Or(*cs):
    if any(isinstance(c, SB) for c in cs):
        if any((not isinstance(c, SB)) and bool(c) for c in cs):
            return True
        return _sb(z3.Or(*[c.e for c in cs if isinstance(c, SB)]))
    return any(bool(c) for c in cs)


def Not(c):
    if isinstance(c, SB):
        return _sb(z3.Not(c.e))
    return not bool(c)


def Implies(a, b):
    return Or(Not(a), b)


def O(xs):
    """python sequence -> 1-d numpy object array (or float array when everything is concrete)"""
    xs = list(xs)
    if not any(_is_sym(x) for x in xs):
        return np.array(xs, dtype=float)
    a = np.empty(len(xs), dtype=object)
    for i, x in enumerate(xs):
        a[i] = x
    return a


def is_symbolic(x):
    return _is_sym(x)


def approx(a, b, rel=1e-9, abs_=0.0):
    """|a-b| <= rel*|b| + abs_  — for identities that hold up to float-evaluated constants (1e-16) or the 1e-13
    enclosure of irrational dB constants; the tolerance is part of the obligation in both modes"""
    if _is_sym(a) or _is_sym(b):
        a = SR.lift(a)
        b = SR.lift(b)
        d = a - b
        if d.c is not None and b.c is not None:
            return abs(d.c) <= Fraction(repr(rel)) * abs(b.c) + Fraction(repr(abs_))
        if d.c is None:
            if a._t is not None and b._t is not None and a._t.get_id() == b._t.get_id():
                return True
            try:
                if CTX.rf(d.t).n.is_zero():
                    return True
            except TooBig:
                pass
        elif d.c == 0:
            return True
        lim = abs(b) * rel + abs_
        return And(d <= lim, -d <= lim)
    return abs(a - b) <= 2 * rel * abs(b) + 2 * abs_ + 1e-300


def approx_db(a_db, b_db, tol_db=1e-8):
    """two dB values equal within tol_db (absolute)"""
    if _is_sym(a_db) or _is_sym(b_db):
        d = SR.lift(a_db) - b_db
        if d.c is not None:
            return abs(d.c) <= Fraction(repr(tol_db))
        return And(d <= tol_db, -d <= tol_db)
    return abs(a_db - b_db) <= 2 * tol_db
