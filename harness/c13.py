"""C13 — a service is accepted exactly when its worst channel clears the mode's threshold."""
import math
from copy import deepcopy

import numpy as np

from harness.common import *      # noqa
from harness import common, elems
from symx.core import approx, SR, Implies

setup = common.setup

META = dict(
    level='model_checking',
    explanation='symx: real Transceiver._calc_snr/update_snr/calc_penalties, propagate, propagate_and_optimize_mode and the verdict '
                'block of compute_path_with_disjunction on a real Transceiver-Roadm-[line]-Roadm-Transceiver path whose line is a stub '
                'element setting arbitrary symbolic per-channel figures; thresholds, margin and receiver figures symbolic (dB values as '
                'plain reals through an invertible 10**x abstraction so that round(.,2) is modelled exactly); penalty normalisation of '
                'json_io.Transceiver on symbolic penalty points',
    bounds=['3 channels, 1-3 added OSNR contributions, update_snr repeated up to 3 times',
            'penalty tables concrete, impairments chosen inside / at the edge / outside the table',
            'auto mode: library of 3 modes (two baud rates, two at the same baud rate with different min_spacing), 2 request spacings',
            'verdict obligations exclude the +-0.005 dB rounding band as the property states',
            'own-tx-OSNR harness: 3 modes of one baud rate with tx_osnr 40 / 33 / 28 dB, symbolic thresholds, margin 0'],
    assumptions=['floats as reals', 'the line is an environment stub: any per-channel GSNR/OSNR the line could deliver',
                 'tx OSNR and add/drop OSNR concrete in the verdict harness (their single counting with symbolic values is H13a)'],
    stubs=['LineStub (subclass of Fused) sets symbolic signal/ASE/NLI shares and concrete CD/PMD/PDL',
           'OMS back-pointers for find_reversed_path built by hand for the 2-ROADM path'],
)

TX_OSNR = 40.0
ADO = 38.0          # add_drop_osnr of both ROADMs
F_MIN, F_MAX, SPACING = 193.0e12, 193.16e12, 50e9      # -> channels at 193.05, 193.10, 193.15 THz for 50 GHz
PENALTIES = {
    'chromatic_dispersion': {'up_to_boundary': [0.0, 4000.0, 18000.0], 'penalty_value': [0.0, 0.0, 0.5]},
    'pmd': {'up_to_boundary': [0.0, 6.0, 10.0], 'penalty_value': [0.0, 0.0, 0.5]},
    'pdl': {'up_to_boundary': [0.0, 1.0, 2.0, 4.0], 'penalty_value': [0.0, 0.2, 0.9, 2.6]},
}
# per-channel impairments of the line (ps/nm, ps, dB) and the penalty the documentation defines for them
SCENARIOS = {
    'inside': dict(cd=[2000.0, 11000.0, 18000.0], pmd=[3.0, 8.0, 6.0], pdl=[0.5, 1.5, 3.0]),
    'zero': dict(cd=[0.0, 0.0, 0.0], pmd=[0.0, 0.0, 0.0], pdl=[0.0, 0.0, 0.0]),
    'cd_outside': dict(cd=[2000.0, 18000.1, 100.0], pmd=[1.0, 1.0, 1.0], pdl=[0.1, 0.1, 0.1]),
    'pdl_outside': dict(cd=[2000.0, 100.0, 100.0], pmd=[1.0, 1.0, 1.0], pdl=[0.1, 0.1, 4.5]),
    # accumulated dispersion BELOW the lowest boundary of the table (negative-dispersion line): outside as well
    'cd_below': dict(cd=[2000.0, -0.5, 100.0], pmd=[1.0, 1.0, 1.0], pdl=[0.1, 0.1, 0.1]),
}


def ref_penalty(table, x):
    """documented rule: linear interpolation between the given points, infinite outside the table"""
    xs, ys = table['up_to_boundary'], table['penalty_value']
    if x < xs[0] or x > xs[-1]:
        return math.inf
    for i in range(len(xs) - 1):
        if xs[i] <= x <= xs[i + 1]:
            if xs[i + 1] == xs[i]:
                return ys[i]
            return ys[i] + (ys[i + 1] - ys[i]) * (x - xs[i]) / (xs[i + 1] - xs[i])
    return ys[-1]


def nch(spacing):
    from gnpy.core.utils import automatic_nch
    return automatic_nch(F_MIN, F_MAX, spacing)


def total_ref_penalty(sc, i, penalties=PENALTIES):
    return sum(ref_penalty(penalties[key], SCENARIOS[sc][short][i % 3])
               for key, short in (('chromatic_dispersion', 'cd'), ('pmd', 'pmd'), ('pdl', 'pdl')) if key in penalties)


def added_noise_constant():
    """1/OSNR_tx + 1/OSNR_add + 1/OSNR_drop in 0.1 nm as a double, accumulated in the order and with the dB round trips
    of the documented procedure (each contribution once), so that the environment stub can place the receiver figure exactly"""
    from gnpy.core.utils import db2lin, lin2db
    ro = ADO + lin2db(2)               # add and drop each contribute add_drop_osnr + 3 dB
    acc = 0
    for s_db in (np.float64(ro), np.float64(ro), np.float64(TX_OSNR)):
        acc += db2lin(-s_db)
    snr_added = -lin2db(acc)
    snr_added = snr_added - lin2db(12.5e9 / 12.5e9)
    return float(db2lin(-snr_added))


def _make_path(ctx, tag, g_db, split, scenario):
    """trx - roadm(add) - line stub - roadm(drop) - trx, all real elements except the line"""
    from gnpy.core.elements import Fused
    from gnpy.core.info import ReferenceCarrier
    c_added = added_noise_constant()

    class LineStub(Fused):
        """environment: whatever the line did.  Sets the shares so that, once tx and add/drop OSNR are counted once, the
        receiver GSNR in 0.1 nm of channel i is 10**(g_i/10)"""
        def propagate(self, si):
            k = si.number_of_channels
            s, a, n = [], [], []
            for i in range(k):
                e = 10 ** (g_db[i] / 10)
                s01 = 1 / (1 / e - c_added)              # line-only GSNR in 0.1 nm
                # in the signal bandwidth: same dB constant as the receiver's 0.1 nm conversion (lin2db(12.5e9/baud))
                from gnpy.core.utils import lin2db
                sbw = s01 * elems.lin_const(ctx, float(lin2db(12.5e9 / si.baud_rate[i])))
                noise = 1 / (1 + sbw)
                s.append(sbw * noise), a.append(noise * split[i]), n.append(noise * (1 - split[i]))
            si._signal_ratio, si._ase_ratio, si._nli_ratio = arr(s), arr(a), arr(n)
            si.tx_osnr = np.asarray(si.tx_osnr, dtype=float)       # same values; float dtype as in production
            sc = SCENARIOS[scenario]
            si.chromatic_dispersion = np.array([sc['cd'][i % 3] for i in range(k)]) * 1e-3
            si.pmd = np.array([sc['pmd'][i % 3] for i in range(k)]) * 1e-12
            si.pdl = np.array([sc['pdl'][i % 3] for i in range(k)])

    rp = {'add_drop_osnr': ADO, 'target_pch_out_db': -20}
    _, els = build_elements([{'uid': f'trxA{tag}', 'type': 'Transceiver'}, {'uid': f'trxB{tag}', 'type': 'Transceiver'},
                             {'uid': f'roadmA{tag}', 'type': 'Roadm', 'params': dict(rp)},
                             {'uid': f'roadmB{tag}', 'type': 'Roadm', 'params': dict(rp)}])
    line = LineStub(uid=f'line{tag}', params={'loss': 0})
    ta, ra, rb, tb = els[f'trxA{tag}'], els[f'roadmA{tag}'], els[f'roadmB{tag}'], els[f'trxB{tag}']
    ra.set_roadm_paths(ta.uid, line.uid, 'add')
    rb.set_roadm_paths(line.uid, tb.uid, 'drop')
    for r, frm in ((ra, ta.uid), (rb, line.uid)):
        r.ref_carrier = ReferenceCarrier(baud_rate=32e9, slot_width=50e9)
        r.ref_pch_in_dbm = {frm: 0.0}
    return [ta, ra, line, rb, tb]


def _symbolic_figures(ctx, tag, k=3, upper=None):
    upper = upper if upper is not None else -10 * math.log10(1 / 10 ** (TX_OSNR / 10) + 1 / 10 ** (ADO / 10)) - 0.5
    g = [ctx.real(f'gsnr01nm{tag}_{i}', lo=0, hi=upper) for i in range(k)]
    split = [ctx.real(f'ase_part{tag}_{i}', lo=0.01, hi=0.99) for i in range(k)]
    return g, split


def _request(thr, mode=True, bidir=False, spacing=SPACING, baud=32e9):
    from gnpy.topology.request import PathRequest
    kw = dict(request_id='r1', source='trxA', destination='trxB', bidir=bidir, trx_type='stub_trx',
              trx_mode='mode 1' if mode else None, baud_rate=baud if mode else None, nodes_list=[], loose_list=[],
              format='mode 1' if mode else '', bit_rate=100e9 if mode else None, roll_off=0.15, OSNR=thr if mode else None,
              penalties=deepcopy(PENALTIES) if mode else None, path_bandwidth=100e9, f_min=F_MIN, f_max=F_MAX, spacing=spacing,
              min_spacing=37.5e9, cost=1, nb_channel=3, power=1e-3, equalization_offset_db=0 if mode else None, tx_power=1e-3,
              tx_osnr=TX_OSNR)
    return PathRequest(**kw)


def _eqpt(margin):
    eq = deepcopy(equipment())
    eq['SI']['default'].sys_margins = margin
    return eq


def h_verdict_fixed_mode(ctx, scenario, bidir):
    """fixed mode: feasible <=> min_i(GSNR_0.1nm,i - penalty_i) >= OSNR + margin, on both directions when bidirectional"""
    from gnpy.topology.request import compute_path_with_disjunction
    symbolic_ctors(ctx)
    elems.set_sim_params()
    thr = ctx.real('required_osnr', lo=5, hi=30)
    margin = ctx.real('sys_margin', lo=0, hi=5)
    g, split = _symbolic_figures(ctx, '')
    path = _make_path(ctx, '', g, split, scenario)
    rev_sc = 'inside' if scenario == 'zero' else 'zero'       # reverse direction sees different impairments
    dirs = [(g, scenario)]
    if bidir:
        g2, split2 = _symbolic_figures(ctx, '_rev')
        rpath = _make_path(ctx, '_rev', g2, split2, rev_sc)
        # reverse path: trxB -> roadmB -> line_rev -> roadmA -> trxA (elements of the forward path at the ends)
        ta, ra, line, rb, tb = path
        line_rev = rpath[2]
        rb.set_roadm_paths(tb.uid, line_rev.uid, 'add')
        ra.set_roadm_paths(line_rev.uid, ta.uid, 'drop')
        rb.ref_pch_in_dbm[tb.uid] = 0.0
        ra.ref_pch_in_dbm[line_rev.uid] = 0.0

        class _Oms:
            pass
        fwd, rev = _Oms(), _Oms()
        fwd.el_list, rev.el_list = [ra, line, rb], [rb, line_rev, ra]
        fwd.reversed_oms, rev.reversed_oms = rev, fwd
        line.oms, line_rev.oms = fwd, rev
        dirs.append((g2, rev_sc))
    else:
        class _Oms:
            pass
        fwd, rev = _Oms(), _Oms()
        fwd.el_list, rev.el_list = [path[1], path[2], path[3]], [path[3], path[1]]
        fwd.reversed_oms, rev.reversed_oms = rev, fwd
        path[2].oms = fwd
    req = _request(thr, bidir=bidir)
    eq = _eqpt(margin)
    res, rev_res, prop_rev = compute_path_with_disjunction(None, eq, [req], [path])
    blocked = hasattr(req, 'blocking_reason')
    # ---- oracle from the statement
    worst = []
    for gg, sc in dirs:
        vals = [gg[i] - total_ref_penalty(sc, i) for i in range(3)]
        if any(isinstance(v, float) and math.isinf(v) for v in vals):
            worst.append(-math.inf)
            continue
        m = vals[0]
        for v in vals[1:]:
            if bool(v < m):
                m = v
        worst.append(m)
    need = thr + margin
    if any(isinstance(w, float) and math.isinf(w) for w in worst):
        ctx.prove('impairment outside the penalty table blocks', blocked and req.blocking_reason == 'MODE_NOT_FEASIBLE',
                  info=dict(scenario=scenario, bidir=bidir))
        return
    clear = And(*[w >= need + 0.005 for w in worst]) if ctx.mode == 'sym' else all(w >= need + 0.005 for w in worst)
    fail = Or(*[w < need - 0.005 for w in worst]) if ctx.mode == 'sym' else any(w < need - 0.005 for w in worst)
    if blocked:
        ctx.prove('blocked only if some direction is below threshold+margin', Not(clear), info=dict(scenario=scenario, bidir=bidir))
        ctx.prove('blocking reason', req.blocking_reason == 'MODE_NOT_FEASIBLE')
    else:
        ctx.prove('accepted only if every direction clears threshold+margin', Not(fail), info=dict(scenario=scenario, bidir=bidir))
    # reported receiver figures are the ones the verdict used
    rx = res[0][-1]
    for i in range(3):
        ctx.prove(f'receiver snr_01nm counts tx and add/drop once [{i}]', approx(10 ** (rx.snr_01nm[i] / 10), 10 ** (g[i] / 10), 1e-9))
        pen = total_ref_penalty(scenario, i)
        ctx.prove(f'receiver penalty is the interpolated table value [{i}]', abs(float(rx.total_penalty[i]) - pen) < 1e-9)
    if bidir:
        rrx = prop_rev[0][-1]
        for i in range(3):
            ctx.prove(f'reverse receiver snr_01nm [{i}]', approx(10 ** (rrx.snr_01nm[i] / 10), 10 ** (dirs[1][0][i] / 10), 1e-9))


MODES = [
    # format, baud, bit_rate, min_spacing, offset
    ('m64', 64e9, 400e9, 75e9, 0),
    ('m32wide', 32e9, 200e9, 50e9, 0),
    ('m32narrow', 32e9, 100e9, 37.5e9, 0),
]


def h_auto_mode(ctx, spacing, scenario):
    """no mode given: the chosen mode is the first feasible one in (baud rate desc, bit rate desc) order among the modes
    whose min_spacing fits the request spacing; none feasible -> NO_FEASIBLE_MODE; none fits -> NO_FEASIBLE_BAUDRATE_WITH_SPACING"""
    from gnpy.topology.request import compute_path_with_disjunction
    symbolic_ctors(ctx)
    elems.set_sim_params()
    margin = ctx.real('sys_margin', lo=0, hi=5)
    thr = {m[0]: ctx.real(f'required_osnr_{m[0]}', lo=5, hi=30) for m in MODES}
    K = max(nch(spacing), 1)
    g, split = _symbolic_figures(ctx, '', k=K)
    path = _make_path(ctx, '', g, split, scenario)

    class _Oms:
        pass
    fwd, rev = _Oms(), _Oms()
    fwd.el_list, rev.el_list = [path[1], path[2], path[3]], [path[3], path[1]]
    fwd.reversed_oms, rev.reversed_oms = rev, fwd
    path[2].oms = fwd
    eq = _eqpt(margin)
    trx = deepcopy(eq['Transceiver']['Voyager'])
    trx.mode = [dict(format=f, baud_rate=b, OSNR=thr[f], bit_rate=br, roll_off=0.15, tx_osnr=TX_OSNR, min_spacing=ms, cost=1,
                     penalties=deepcopy(PENALTIES), equalization_offset_db=off) for f, b, br, ms, off in MODES]
    eq['Transceiver']['stub_trx'] = trx
    req = _request(None, mode=False, spacing=spacing)
    res, _, _ = compute_path_with_disjunction(None, eq, [req], [path])
    fits = [m for m in MODES if m[3] <= spacing]
    order = sorted(fits, key=lambda m: (m[1], m[2]), reverse=True)
    info = dict(spacing=spacing, scenario=scenario, chosen=req.tsp_mode, blocking=getattr(req, 'blocking_reason', None))
    if not order:
        ctx.prove('no mode fits the spacing -> blocked', getattr(req, 'blocking_reason', None) == 'NO_FEASIBLE_BAUDRATE_WITH_SPACING', info=info)
        return
    vals = [g[i] - total_ref_penalty(scenario, i) for i in range(K)]
    if any(isinstance(v, float) and math.isinf(v) for v in vals):
        ctx.prove('impairment outside the penalty table blocks every mode', getattr(req, 'blocking_reason', None) == 'NO_FEASIBLE_MODE', info=info)
        return
    worst = vals[0]
    for v in vals[1:]:
        if bool(v < worst):
            worst = v
    ctx.prove('chosen mode fits the spacing', req.tsp_mode in [m[0] for m in fits] or req.tsp_mode is None, info=info)
    # outside the rounding band of every candidate, the choice is determined
    decided = True
    expected = None
    for m in order:
        need = thr[m[0]] + margin
        if bool(worst >= need + 0.01):
            expected = m[0]
            break
        if bool(worst < need - 0.01):
            continue
        decided = False       # inside the rounding band of this mode: the statement does not rule
        break
    if not decided:
        ctx.prove('inside rounding band: some verdict given', True)
        return
    if expected is None:
        ctx.prove('no feasible mode -> blocked as such', getattr(req, 'blocking_reason', None) == 'NO_FEASIBLE_MODE', info=info)
    else:
        ctx.prove('first feasible mode in (baud desc, bit rate desc) order is chosen',
                  not hasattr(req, 'blocking_reason') and req.tsp_mode == expected, info=dict(info, expected=expected))
        ctx.prove('request carries the chosen mode parameters', req.baud_rate == dict((m[0], m[1]) for m in MODES)[expected]
                  and req.bit_rate == dict((m[0], m[2]) for m in MODES)[expected])


def h_auto_mode_own_tx_osnr(ctx, own_tables=False):
    """modes of one baud rate with DIFFERENT transmitter OSNR: whichever mode automatic selection ends on, the receiver
    figures it reports are those obtained when that mode is imposed (each mode's own transmitter OSNR counted once)"""
    from gnpy.topology.request import compute_path_with_disjunction
    symbolic_ctors(ctx)
    elems.set_sim_params()
    margin = 0.0
    modes = [('hi', 32e9, 200e9, 37.5e9, 40.0), ('mid', 32e9, 150e9, 37.5e9, 33.0), ('lo', 32e9, 100e9, 37.5e9, 28.0)]
    thr = {m[0]: ctx.real(f'required_osnr_{m[0]}', lo=5, hi=30) for m in modes}
    g, split = _symbolic_figures(ctx, '', k=3)
    # every mode may come with its own set of penalty tables: the first mode has a PMD table the line exceeds, the others none
    tables = {m[0]: PENALTIES for m in modes}
    scen = 'zero'
    if own_tables:
        scen = 'inside'                   # PMD 3 / 8 / 6 ps on the three channels
        tables = {'hi': {'pmd': {'up_to_boundary': [0.0, 5.0], 'penalty_value': [0.0, 0.5]}},
                  'mid': {'chromatic_dispersion': PENALTIES['chromatic_dispersion']}, 'lo': {}}

    def run(forced):
        path = _make_path(ctx, '', g, split, scen)

        class _Oms:
            pass
        fwd, rev = _Oms(), _Oms()
        fwd.el_list, rev.el_list = [path[1], path[2], path[3]], [path[3], path[1]]
        fwd.reversed_oms, rev.reversed_oms = rev, fwd
        path[2].oms = fwd
        eq_ = _eqpt(margin)
        trx = deepcopy(eq_['Transceiver']['Voyager'])
        trx.mode = [dict(format=f, baud_rate=b, OSNR=thr[f], bit_rate=br, roll_off=0.15, tx_osnr=tx, min_spacing=ms, cost=1,
                         penalties=deepcopy(tables[f]), equalization_offset_db=0) for f, b, br, ms, tx in modes]
        eq_['Transceiver']['stub_trx'] = trx
        if forced is None:
            req = _request(None, mode=False, spacing=50e9)
        else:
            m = [x for x in modes if x[0] == forced][0]
            req = _request(thr[forced], mode=True, spacing=50e9, baud=m[1])
            req.penalties = deepcopy(tables[forced])
            req.tsp_mode = req.format = forced
            req.bit_rate, req.tx_osnr, req.min_spacing = m[2], m[4], m[3]
        res, _, _ = compute_path_with_disjunction(None, eq_, [req], [path])
        return req, res[0]
    req, pth = run(None)
    chosen = req.tsp_mode
    info = dict(chosen=chosen, blocking=getattr(req, 'blocking_reason', None))
    def clearly_feasible(mode_name, rpth):
        rx = rpth[-1]
        vals = [rx.snr_01nm[i] - (rx.total_penalty[i] if hasattr(rx.total_penalty, '__len__') else rx.total_penalty) for i in range(3)]
        worst = vals[0]
        for v in vals[1:]:
            if bool(v < worst):
                worst = v
        return bool(worst >= thr[mode_name] + 0.01)
    if hasattr(req, 'blocking_reason') or chosen is None or not pth:
        ctx.prove('no mode chosen: blocked with a reason', hasattr(req, 'blocking_reason'), info=info)
        if own_tables:
            # blocked by automatic selection: then no mode may be clearly feasible when imposed
            for m in modes:
                r2, p2 = run(m[0])
                if p2 and not hasattr(r2, 'blocking_reason') and clearly_feasible(m[0], p2):
                    ctx.prove('automatic selection does not block a request one of whose modes is feasible when imposed', False,
                              info=dict(info, feasible_mode=m[0]))
                    break
        return
    ref_req, ref_pth = run(chosen)
    rx = ref_pth[-1]
    vals = [rx.snr_01nm[i] - (rx.total_penalty[i] if hasattr(rx.total_penalty, '__len__') else rx.total_penalty) for i in range(3)]
    worst = vals[0]
    for v in vals[1:]:
        if bool(v < worst):
            worst = v
    if bool(worst >= thr[chosen] + 0.01):       # clearly feasible (outside the rounding band) when this mode is imposed
        ctx.prove('a mode that is feasible when imposed is not reported blocked by automatic selection',
                  getattr(req, 'blocking_reason', None) is None, info=dict(info, imposed_blocking=getattr(ref_req, 'blocking_reason', None)))
    for i in range(3):
        ctx.prove(f'receiver GSNR reported for the selected mode equals the one of that mode imposed [{i}]',
                  approx(10 ** (pth[-1].snr_01nm[i] / 10), 10 ** (ref_pth[-1].snr_01nm[i] / 10), 1e-9), info=info)
        ctx.prove(f'receiver OSNR reported for the selected mode equals the one of that mode imposed [{i}]',
                  approx(10 ** (pth[-1].osnr_ase_01nm[i] / 10), 10 ** (ref_pth[-1].osnr_ase_01nm[i] / 10), 1e-9), info=info)


def h_penalty_normalisation(ctx, npts):
    """json_io.Transceiver: penalty points sorted by boundary; a (0, 0) lower boundary is added iff all are positive"""
    from gnpy.tools.json_io import Transceiver as JsonTrx
    pts = []
    for i in range(npts):
        b = ctx.real(f'boundary{i}', lo=-1000, hi=1000)
        pts.append({'chromatic_dispersion': b, 'penalty_value': ctx.real(f'penalty{i}', lo=0, hi=5)})
    for i in range(npts):
        for j in range(i + 1, npts):
            ctx.assume(Not(eq(pts[i]['chromatic_dispersion'], pts[j]['chromatic_dispersion'])) if ctx.mode == 'sym'
                       else pts[i]['chromatic_dispersion'] != pts[j]['chromatic_dispersion'])
    trx = JsonTrx(type_variety='t', frequency={'min': 191e12, 'max': 196e12},
                  mode=[{'format': 'm', 'baud_rate': 32e9, 'OSNR': 11, 'bit_rate': 100e9, 'roll_off': 0.15, 'tx_osnr': 40,
                         'min_spacing': 37.5e9, 'cost': 1, 'penalties': pts}])
    table = trx.mode[0]['penalties']['chromatic_dispersion']
    xs, ys = table['up_to_boundary'], table['penalty_value']
    allpos = all(bool(p['chromatic_dispersion'] > 0) for p in pts)
    ctx.prove('points kept (+ origin iff all boundaries positive)', len(xs) == npts + (1 if allpos else 0) and len(ys) == len(xs))
    for i in range(len(xs) - 1):
        ctx.prove(f'sorted by boundary [{i}]', le(xs[i], xs[i + 1]))
    if allpos:
        ctx.prove('origin added', bool(eq(xs[0], 0)) and bool(eq(ys[0], 0)))
    # every given point present with its own penalty
    for p in pts:
        found = False
        for x, y in zip(xs, ys):
            if x is p['chromatic_dispersion'] or (not is_symbolic(x) and not is_symbolic(p['chromatic_dispersion']) and x == p['chromatic_dispersion']):
                found = y is p['penalty_value'] or (not is_symbolic(y) and y == p['penalty_value'])
        ctx.prove('point keeps its penalty', found)


def jobs(tier):
    js = []
    for k, n_added, rep in ((1, 1, 1), (2, 2, 1), (2, 3, 1), (2, 2, 2), (3, 1, 3)) if tier == 'quick' else \
            ((1, 1, 1), (2, 2, 1), (3, 3, 1), (2, 2, 2), (3, 1, 3), (3, 3, 3)):
        js.append(dict(name=f'H13a:trx_update_snr:k{k}:added{n_added}:repeat{rep}', module='harness.elems', fn='h_trx',
                       params=dict(k=k, n_added=n_added, props=('C13',), repeat=rep), cost=10 * k * n_added * rep))
    for sc in SCENARIOS:
        for bidir in (False, True):
            js.append(dict(name=f'H13b:verdict_fixed_mode:{sc}:{"bidir" if bidir else "unidir"}', fn='h_verdict_fixed_mode',
                           params=dict(scenario=sc, bidir=bidir), cost=40 if bidir else 10))
    for spacing in (37.5e9, 50e9, 75e9, 25e9):
        for sc in ('inside', 'cd_outside'):
            js.append(dict(name=f'H13b:auto_mode:spacing{spacing * 1e-9:g}:{sc}', fn='h_auto_mode',
                           params=dict(spacing=spacing, scenario=sc), cost=60))
    js.append(dict(name='H13b:auto_mode:own_tx_osnr_per_mode', fn='h_auto_mode_own_tx_osnr', cost=80))
    js.append(dict(name='H13b:auto_mode:own_penalty_tables_per_mode', fn='h_auto_mode_own_tx_osnr', params=dict(own_tables=True), cost=80))
    for n in (1, 2, 3):
        js.append(dict(name=f'H13c:penalty_normalisation:{n}pts', fn='h_penalty_normalisation', params=dict(npts=n)))
    return js
