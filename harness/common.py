"""helpers shared by the symx harnesses: gnpy namespace shims, symbolic SpectralInformation, invariant obligations"""
import numpy as np

from symx import npshim
from symx.core import O, eq, le, ge, lt, gt, And, Or, Not, Implies, SR, is_symbolic

_DONE = [False]
SHIMS = []


def setup():
    if not _DONE[0]:
        SHIMS[:] = npshim.patch_gnpy()
        _DONE[0] = True
    return SHIMS


def symbolic_ctors(ctx):
    """dtype=object constructors only while running symbolically (float arrays in replay, as in production)"""
    npshim.object_constructors(ctx.mode == 'sym')


def arr(xs):
    return O(xs)


def db_input(ctx, name, lo_lin=None, hi_lin=None):
    """a symbolic dB quantity 10*log10(X) with X a positive real input (keeps dB algebra exact)"""
    import math
    x = ctx.real(name + '_lin', lo=0 if lo_lin is None else lo_lin, lo_strict=lo_lin is None, hi=hi_lin)
    if ctx.mode == 'conc':
        return 10 * math.log10(x)
    return 10 * x.log10()


def make_si(ctx, k, tag='', f0=193.0e12, spacing=50e9, baud=32e9, slot=None, freqs=None, pmax=None, noisy=True,
            baud_list=None, slot_list=None, labels=None, delta_pdb=None, extra=None):
    """real SpectralInformation with symbolic per-channel power and signal/ase/nli split obeying the invariant I:
    p>0, s>0, a>=0, n>=0, s+a+n=1."""
    from gnpy.core.info import SpectralInformation
    symbolic_ctors(ctx)
    f = freqs if freqs is not None else [f0 + i * spacing for i in range(k)]
    p, s, a, n = [], [], [], []
    for i in range(k):
        p.append(ctx.real(f'p{tag}{i}', lo=0, lo_strict=True, hi=pmax))
        if noisy:
            si_ = ctx.real(f's{tag}{i}', lo=0, lo_strict=True, hi=1)
            ai_ = ctx.real(f'a{tag}{i}', lo=0, hi=1)
            ni_ = 1 - si_ - ai_
            ctx.assume(ge(ni_, 0))
        else:
            si_, ai_, ni_ = 1.0, 0.0, 0.0
        s.append(si_), a.append(ai_), n.append(ni_)
    bl = baud_list if baud_list is not None else [baud] * k
    sl = slot_list if slot_list is not None else [slot if slot is not None else spacing] * k
    kw = dict(frequency=arr(f), baud_rate=arr(bl), slot_width=arr(sl), pch=arr(p), signal_ratio=arr(s),
              ase_ratio=arr(a), nli_ratio=arr(n), roll_off=np.full(k, 0.15),
              chromatic_dispersion=np.zeros(k), pmd=np.zeros(k), pdl=np.zeros(k), latency=np.zeros(k),
              delta_pdb_per_channel=arr(delta_pdb) if delta_pdb is not None else np.zeros(k),
              tx_osnr=np.full(k, 40.0), tx_power=np.full(k, 1e-3),
              label=np.array(labels if labels is not None else [f'ch{i}' for i in range(k)], dtype=object))
    if extra:
        kw.update(extra)
    if ctx.mode == 'sym':
        for key in ('roll_off', 'chromatic_dispersion', 'pmd', 'pdl', 'latency', 'delta_pdb_per_channel',
                    'tx_osnr', 'tx_power', 'pch', 'signal_ratio', 'ase_ratio', 'nli_ratio'):
            kw[key] = np.asarray(kw[key], dtype=object)
    si = SpectralInformation(**kw)
    si._verif_raw = dict(p=list(p), s=list(s), a=list(a), n=list(n))      # the values handed to the constructor
    return si


def make_twin(si, pre):
    """a second SpectralInformation object with the same carriers and the same (symbolic) state as `si` had when `pre` was taken"""
    from gnpy.core.info import SpectralInformation
    k = len(pre['p'])

    def col(v):
        a = np.empty(k, dtype=object if any(is_symbolic(x) for x in v) else float)
        for i, x in enumerate(v):
            a[i] = x
        return a
    return SpectralInformation(frequency=np.array(pre['f'], dtype=float), baud_rate=col(pre['baud']), slot_width=col(pre['slot']),
                               pch=col(pre['p']), signal_ratio=col(pre['s']), ase_ratio=col(pre['a']), nli_ratio=col(pre['n']),
                               roll_off=si.roll_off.copy(), chromatic_dispersion=si.chromatic_dispersion.copy(), pmd=si.pmd.copy(),
                               pdl=si.pdl.copy(), latency=si.latency.copy(), delta_pdb_per_channel=si.delta_pdb_per_channel.copy(),
                               tx_osnr=si.tx_osnr.copy(), tx_power=si.tx_power.copy(), label=si.label.copy())


def snap(si):
    """copy of the bookkeeping state (total power and the three shares) of a SpectralInformation"""
    return dict(p=list(si._pch), s=list(si._signal_ratio), a=list(si._ase_ratio), n=list(si._nli_ratio),
                f=list(si.frequency), label=list(si.label), baud=list(si.baud_rate), slot=list(si.slot_width))


def prove_invariant(ctx, si, tag):
    """I(si): for every channel p>0, each share in [0,1], shares sum to 1, and the derived powers add up"""
    k = si.number_of_channels
    for i in range(k):
        p, s, a, n = si._pch[i], si._signal_ratio[i], si._ase_ratio[i], si._nli_ratio[i]
        ctx.prove(f'{tag}:sum1[{i}]', eq(s + a + n, 1))
        ctx.prove(f'{tag}:shares_in_01[{i}]', And(ge(s, 0), ge(a, 0), ge(n, 0), le(s, 1), le(a, 1), le(n, 1)))
        ctx.prove(f'{tag}:p_pos[{i}]', gt(p, 0))
        ctx.prove(f'{tag}:powers_add[{i}]', eq(si.signal[i] + si.ase[i] + si.nli[i], si.pch[i]))


# ------------------------------------------------------------------------------------------------ real gnpy objects
_EQPT = {}
EXAMPLE = '/repo/gnpy/example-data'
TESTDATA = '/repo/tests/data'


def equipment(name='eqpt_config.json', base=EXAMPLE, extra=None):
    """equipment library loaded by the real loader (cached per process; deep-copied by callers that mutate it)"""
    import logging
    from pathlib import Path
    from gnpy.tools.json_io import load_equipment, load_json
    logging.disable(logging.CRITICAL)
    key = (name, base)
    if key not in _EQPT:
        extra_cfg = None
        if extra:
            extra_cfg = {Path(e).name: load_json(Path(e)) for e in extra}
        _EQPT[key] = load_equipment(Path(base) / name, extra_cfg) if extra_cfg else load_equipment(Path(base) / name)
    return _EQPT[key]


def build_elements(elements_json, eqpt=None, connections=None):
    """elements created by the real network_from_json from element dicts; returns (graph, {uid: element})"""
    from copy import deepcopy
    from gnpy.tools.json_io import network_from_json
    eqpt = eqpt or equipment()
    g = network_from_json({'elements': deepcopy(elements_json), 'connections': connections or []}, eqpt)
    return g, {n.uid: n for n in g.nodes()}


def c01_obligations(ctx, si, tag):
    prove_invariant(ctx, si, tag)


def c02_obligations(ctx, pre, si, tag, kind, idx=None):
    """quality never improves; kind: 'passive' (all unchanged) | 'amp' (only ASE moves) | 'fiber' (only NLI moves)"""
    k = si.number_of_channels
    idx = idx if idx is not None else list(range(k))
    for j, i in enumerate(idx):
        s0, a0, n0 = pre['s'][i], pre['a'][i], pre['n'][i]
        s1, a1, n1 = si._signal_ratio[j], si._ase_ratio[j], si._nli_ratio[j]
        # cross-multiplied so that an infinite ratio (zero noise) needs no special case
        ctx.prove(f'{tag}:gsnr_not_improved[{i}]', le(s1 * (a0 + n0), s0 * (a1 + n1)))
        ctx.prove(f'{tag}:osnr_ase_not_improved[{i}]', le(s1 * a0, s0 * a1))
        ctx.prove(f'{tag}:snr_nli_not_improved[{i}]', le(s1 * n0, s0 * n1))
        if kind == 'passive':
            ctx.prove(f'{tag}:quality_unchanged[{i}]', And(eq(s1, s0), eq(a1, a0), eq(n1, n0)))
        elif kind == 'amp':
            ctx.prove(f'{tag}:snr_nli_unchanged[{i}]', eq(s1 * n0, s0 * n1))
        elif kind == 'fiber':
            ctx.prove(f'{tag}:osnr_ase_unchanged[{i}]', eq(s1 * a0, s0 * a1))


def design(graph, eqpt, **kw):
    """auto-design through the real entry point gnpy.tools.worker_utils.designed_network"""
    from gnpy.tools.worker_utils import designed_network
    return designed_network(eqpt, graph, **kw)
