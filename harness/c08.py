"""C08 — auto-design turns any well-formed topology into a complete line system."""
import itertools
from copy import deepcopy

import networkx as nx

from harness.common import *      # noqa
from harness import common
from symx.core import SR, SI, approx

setup = common.setup

META = dict(
    level='model_checking',
    explanation='symx: real calculate_new_length / split_fiber with a symbolic fibre length; real add_missing_fiber_attributes '
                '(add_connector_loss, add_fiber_padding, span_loss) on a real booster-fibre-fused-fibre-preamp line with symbolic lengths, '
                'loss coefficients, user pads/connectors and library defaults (padding, EOL, connector losses); real designed_network '
                '(add_missing_elements_in_network + build_network) on a grammar of topology shapes with representative concrete '
                'parameters, checking completeness and graph-structure obligations on every leaf',
    bounds=['fibre length in (0, 1000] km symbolic; max_length in {100,150} km, padding in {10,12} dB',
            'spliced span of two fibres and a fused element; all dB quantities symbolic',
            'shape grammar: chain/ring/star/mesh of 2-4 ROADM sites, fused junctions, user amplifiers with full/partial/no settings, '
            'over-long spans, short spans, mixed user connector losses (listed in the evidence); optionally a transceiver plugged straight onto a '
            'one- or two-fibre line at the first site; library max_length given in km or in m',
            'split of fibres with scalar, per-frequency loss, per-frequency dispersion and one lumped loss (at 60 km)'],
    assumptions=['floats as reals', 'pipeline-level harness uses concrete numeric parameters per shape (structure obligations do not depend '
                 'on solver queries); topologies outside the grammar are outside the claim'],
    stubs=[],
)


# ---------------------------------------------------------------------------------------------- H8a split

FIBRE_PARAMS = {
    'scalar': {'loss_coef': 0.2},
    'loss_per_frequency': {'loss_coef': {'value': [0.21, 0.2, 0.22], 'frequency': [191e12, 193e12, 196e12]}},
    'dispersion_per_frequency': {'loss_coef': 0.2, 'dispersion_per_frequency': {'value': [1.6e-5, 1.67e-5, 1.8e-5],
                                                                                  'frequency': [191e12, 193e12, 196e12]}},
    'lumped_losses': {'loss_coef': 0.2, 'lumped_losses': [{'position': 60, 'loss': 1.5}]},
    'operator_pmd_coef': {'loss_coef': 0.2, 'pmd_coef': 4e-15},
}
PROBE_F = [191.5e12, 193.0e12, 195.5e12]


def h_split(ctx, max_km, padding, fibre='scalar'):
    from gnpy.core.network import calculate_new_length, split_fiber
    from gnpy.core.elements import Fiber, Edfa
    # (a lumped loss must lie inside the fibre: the variant with one at 60 km starts above 60 km)
    L = ctx.real('length_m', lo=60_000 if fibre == 'lumped_losses' else 1, lo_strict=fibre == 'lumped_losses', hi=1_000_000)
    max_length = max_km * 1000
    min_length = max(int(padding / 0.2 * 1e3), 50_000)
    bounds = range(min_length, max_length)
    target = max(min_length, min(max_length, 90_000))
    new_len, n = calculate_new_length(L, bounds, target)
    n = int(n)
    info = dict(max_km=max_km, padding=padding, n_spans=n)
    ctx.prove('spans are equal and together have the original length', eq(new_len * n, L), info=info)
    if bool(L < max_length):
        ctx.prove('a fibre below the maximum span length is not split', n == 1, info=info)
    elif bool(L > max_length):
        ctx.prove('a fibre longer than the maximum span length is split', n >= 2, info=info)
        ctx.prove('spans are not longer than the maximum span length', le(new_len, max_length), info=info)
    # the real split on a real graph
    els = [{'uid': 'a', 'type': 'Edfa', 'type_variety': 'std_medium_gain', 'operational': {'gain_target': 20, 'tilt_target': 0, 'out_voa': 0}},
           {'uid': 'f', 'type': 'Fiber', 'type_variety': 'SSMF',
            'params': dict({'length': L / 1000, 'length_units': 'km', 'con_in': 0.5, 'con_out': 0.5, 'att_in': 0}, **FIBRE_PARAMS[fibre])},
           {'uid': 'b', 'type': 'Edfa', 'type_variety': 'std_medium_gain', 'operational': {'gain_target': 20, 'tilt_target': 0, 'out_voa': 0}}]
    g, by = build_elements(els, connections=[{'from_node': 'a', 'to_node': 'f'}, {'from_node': 'f', 'to_node': 'b'}])
    import numpy as np
    probe = np.array(PROBE_F)
    ref_coef = [float(x) for x in np.atleast_1d(by['f'].loss_coef_func(probe))]
    ref_cd_per_m = [float(x) for x in np.atleast_1d(by['f'].beta2(probe))]
    ref_lumped_db = sum(x['loss'] for x in by['f'].params.lumped_losses)
    ref_latency = by['f'].params.latency
    try:
        split_fiber(g, by['f'], bounds, target)
        err = None
    except Exception as e:      # noqa
        err = f'{type(e).__name__}: {e}'
    ctx.prove('lumped losses: the split succeeds' if fibre == 'lumped_losses' else 'the split succeeds', err is None,
              info=dict(info, fibre=fibre, error=err))
    if err is not None:
        return
    fibers = [x for x in g.nodes() if isinstance(x, Fiber)]
    if fibre == 'lumped_losses':
        got = sum(x['loss'] for fb in fibers for x in fb.params.lumped_losses)
        ctx.prove('lumped losses: spans together have the original lumped loss', abs(got - ref_lumped_db) < 1e-9,
                  info=dict(info, fibre=fibre, lumped_db_before=ref_lumped_db, lumped_db_after=got))
    ctx.prove('graph holds n equal fibre spans', len(fibers) == n, info=info)
    tot = 0
    for fb in fibers:
        tot = tot + fb.params.length
        ctx.prove('span length', eq(fb.params.length, new_len), info=info)
        try:
            coef = [float(x) for x in np.atleast_1d(fb.loss_coef_func(probe))]
            cd = [float(x) for x in np.atleast_1d(fb.beta2(probe))]
            err = None
        except Exception as e:      # noqa
            coef, cd, err = None, None, f'{type(e).__name__}: {e}'
        ctx.prove('span keeps the fibre type, loss coefficient and dispersion over the spectrum',
                  fb.type_variety == 'SSMF' and err is None and all(abs(a - b) <= 1e-12 * abs(b) for a, b in zip(coef, ref_coef)) and
                  all(abs(a - b) <= 1e-9 * abs(b) for a, b in zip(cd, ref_cd_per_m)),
                  info=dict(info, fibre=fibre, error=err, loss_coef=coef, want=ref_coef))
    ctx.prove('total length preserved', eq(tot, L), info=info)
    if fibre == 'operator_pmd_coef':
        for fb in fibers:
            ctx.prove('span keeps the operator PMD coefficient and still exports it', float(fb.params.pmd_coef) == 4e-15 and
                      fb.to_json['params'].get('pmd_coef') == 4e-15, info=dict(info, exported=fb.to_json['params'].get('pmd_coef')))
    lat = 0
    for fb in fibers:
        lat = lat + fb.params.latency
    ctx.prove('latencies of the spans add up to the latency of the original fibre', approx(lat, ref_latency, 1e-9), info=info)
    chain = list(nx.shortest_path(g, by['a'], by['b']))
    ctx.prove('spans form a chain between the original neighbours', len(chain) == n + 2 and all(g.in_degree(x) == 1 and g.out_degree(x) == 1 for x in fibers))
    ctx.prove('unique names', len({x.uid for x in g.nodes()}) == g.number_of_nodes())


# ------------------------------------------------------------------------------- H8c connector loss and padding

def h_padding(ctx, layout):
    """add_missing_fiber_attributes on a line: connector losses completed, EOL added once, every amplifier-to-amplifier span
    has at least the padding loss, user pads only topped up"""
    from gnpy.core.elements import Fiber
    from gnpy.core.network import add_missing_fiber_attributes
    eqpt = deepcopy(equipment())
    span = eqpt['Span']['default']
    span.padding = ctx.real('padding_db', lo=0, hi=20)
    span.EOL = ctx.real('eol_db', lo=0, hi=3)
    span.con_in = ctx.real('default_con_in', lo=0, hi=2)
    span.con_out = ctx.real('default_con_out', lo=0, hi=2)
    amp = lambda u: {'uid': u, 'type': 'Edfa', 'type_variety': 'std_medium_gain',       # noqa
                     'operational': {'gain_target': 20, 'tilt_target': 0, 'out_voa': 0}}

    def fib(u, tag, user_con):
        p = {'length': ctx.real(f'{tag}_km', lo=0.1, hi=150), 'length_units': 'km', 'loss_coef': ctx.real(f'{tag}_loss_coef', lo=0.15, hi=0.4),
             'att_in': ctx.real(f'{tag}_user_att_in', lo=0, hi=6)}
        # each connector loss is given by the operator or left to the library default, independently of the other
        which = ctx.choice(f'{tag} connectors given', ['both', 'neither'] if not user_con else ['both', 'only con_in', 'only con_out'])
        p['con_in'] = ctx.real(f'{tag}_user_con_in', lo=0, hi=2) if which in ('both', 'only con_in') else None
        p['con_out'] = ctx.real(f'{tag}_user_con_out', lo=0, hi=2) if which in ('both', 'only con_out') else None
        return {'uid': u, 'type': 'Fiber', 'type_variety': 'SSMF', 'params': p}
    if layout == 'single':
        els = [amp('a'), fib('f1', 'f1', False), amp('b')]
        order = ['a', 'f1', 'b']
    elif layout == 'spliced':
        els = [amp('a'), fib('f1', 'f1', True), {'uid': 'fu', 'type': 'Fused', 'params': {'loss': ctx.real('fused_loss', lo=0, hi=2)}},
               fib('f2', 'f2', False), amp('b')]
        order = ['a', 'f1', 'fu', 'f2', 'b']
    else:   # two amplified spans in a row
        els = [amp('a'), fib('f1', 'f1', False), amp('m'), fib('f2', 'f2', True), amp('b')]
        order = ['a', 'f1', 'm', 'f2', 'b']
    user = {e['uid']: dict(e['params']) for e in els if e['type'] == 'Fiber'}
    g, by = build_elements(els, eqpt, connections=[{'from_node': x, 'to_node': y} for x, y in zip(order[:-1], order[1:])])
    try:
        add_missing_fiber_attributes(g, eqpt)
        err = None
    except Exception as e:      # noqa
        err = f'{type(e).__name__}: {e}'
    ctx.prove('connector/padding completion succeeds for every combination of given and missing settings', err is None,
              info=dict(layout=layout, error=err, given={k: [x for x in ('con_in', 'con_out') if v.get(x) is not None] for k, v in user.items()}))
    if err is not None:
        return
    fibers = [by[u] for u in order if isinstance(by[u], Fiber)]
    for f in fibers:
        u = user[f.uid]
        nxt = by[order[order.index(f.uid) + 1]]
        eol = 0 if type(nxt).__name__ == 'Fused' else span.EOL
        ctx.prove(f'{f.uid}: input connector = user value or default', eq(f.params.con_in, u['con_in'] if u['con_in'] is not None else span.con_in))
        ctx.prove(f'{f.uid}: output connector = user value or default, plus EOL once (not before a fused)',
                  eq(f.params.con_out, (u['con_out'] if u['con_out'] is not None else span.con_out) + eol))
        ctx.prove(f'{f.uid}: padding never lowered below the user value', ge(f.params.att_in, u['att_in']))
    # amplifier-to-amplifier spans
    spans = [[f for f in fibers]] if layout != 'two_spans' else [[fibers[0]], [fibers[1]]]
    for sp in spans:
        total = 0
        for f in sp:
            total = total + f.params.loss_coef * f.params.length + f.params.con_in + f.params.con_out + f.params.att_in
        if layout == 'spliced':
            total = total + by['fu'].loss
        ctx.prove('amplifier-to-amplifier span has at least the padding loss', ge(total, span.padding), info=dict(layout=layout))
        # only the first fibre of the span is padded, and only by the deficit
        base = 0
        for f in sp:
            uu = user[f.uid]
            nxt = by[order[order.index(f.uid) + 1]]
            eol = 0 if type(nxt).__name__ == 'Fused' else span.EOL
            base = base + f.params.loss_coef * f.params.length + (uu['con_in'] if uu['con_in'] is not None else span.con_in) + \
                (uu['con_out'] if uu['con_out'] is not None else span.con_out) + eol + uu['att_in']
        if layout == 'spliced':
            base = base + by['fu'].loss
        deficit = span.padding - base
        want_first = user[sp[0].uid]['att_in'] + (deficit if bool(deficit > 0) else 0)
        ctx.prove('first fibre of the span padded by exactly the deficit', eq(sp[0].params.att_in, want_first), info=dict(layout=layout))
        for f in sp[1:]:
            ctx.prove('other fibres of the span keep their pad', eq(f.params.att_in, user[f.uid]['att_in']))


# -------------------------------------------------------------------------------------------- H8b pipeline

FIB = {'type': 'Fiber', 'type_variety': 'SSMF'}


def _topology(ctx):
    """grammar of shapes; returns (elements json, connections json, sites, description)"""
    shape = ctx.choice('shape', ['chain2', 'chain3', 'ring3', 'star4', 'mesh4'])
    n, pairs = {'chain2': (2, [(0, 1)]), 'chain3': (3, [(0, 1), (1, 2)]), 'ring3': (3, [(0, 1), (1, 2), (0, 2)]),
                'star4': (4, [(0, 1), (0, 2), (0, 3)]), 'mesh4': (4, [(0, 1), (1, 2), (2, 3), (0, 3), (0, 2)])}[shape]
    sites = [f'site{i}' for i in range(n)]
    els, cx = [], []
    for i, s in enumerate(sites):
        els += [{'uid': f'trx {s}', 'type': 'Transceiver', 'metadata': {'location': {'latitude': i, 'longitude': i, 'city': s, 'region': ''}}},
                {'uid': f'roadm {s}', 'type': 'Roadm', 'metadata': {'location': {'latitude': i, 'longitude': i, 'city': s, 'region': ''}}}]
        cx += [{'from_node': f'trx {s}', 'to_node': f'roadm {s}'}, {'from_node': f'roadm {s}', 'to_node': f'trx {s}'}]
    flavour = ctx.choice('line flavour', ['plain', 'long_span', 'short_span', 'fused_junction', 'user_amps_full', 'user_amps_partial',
                                           'two_fibres_no_amp', 'user_connectors', 'user_amps_delta_p_only', 'booster_voa_then_auto',
                                           'inline_voa_only'])
    km = {'plain': 80, 'long_span': 260, 'short_span': 8, 'fused_junction': 60, 'user_amps_full': 90, 'user_amps_partial': 70,
          'two_fibres_no_amp': 75, 'user_connectors': 50, 'user_amps_delta_p_only': 85, 'booster_voa_then_auto': 85,
          'inline_voa_only': 80}[flavour]
    for (a, b) in pairs:
        for (u, v) in ((sites[a], sites[b]), (sites[b], sites[a])):
            def fiber(uid, length):
                p = {'length': length, 'length_units': 'km', 'loss_coef': 0.2}
                if flavour == 'user_connectors':
                    p.update(con_in=0.3, con_out=0.7, att_in=1.0)
                return dict(FIB, uid=uid, params=p, metadata={'location': {'latitude': 0.5, 'longitude': 0.5, 'city': None, 'region': ''}})
            names = [f'roadm {u}']
            if flavour == 'fused_junction':
                els += [fiber(f'fiber ({u} → {v})-1', km), {'uid': f'fused ({u} → {v})', 'type': 'Fused', 'params': {'loss': 0.5}},
                        fiber(f'fiber ({u} → {v})-2', km / 2)]
                names += [f'fiber ({u} → {v})-1', f'fused ({u} → {v})', f'fiber ({u} → {v})-2']
            elif flavour == 'two_fibres_no_amp':
                els += [fiber(f'fiber ({u} → {v})-1', km), fiber(f'fiber ({u} → {v})-2', km + 5)]
                names += [f'fiber ({u} → {v})-1', f'fiber ({u} → {v})-2']
            elif flavour == 'user_amps_delta_p_only':
                # the operator fixes the model and the power offset only (gain, tilt and VOAs left to the design)
                els += [{'uid': f'booster ({u} → {v})', 'type': 'Edfa', 'type_variety': 'std_medium_gain', 'operational': {'delta_p': 1.0}},
                        fiber(f'fiber ({u} → {v})', km),
                        {'uid': f'preamp ({u} → {v})', 'type': 'Edfa', 'type_variety': 'std_low_gain', 'operational': {'delta_p': 0.5}}]
                names += [f'booster ({u} → {v})', f'fiber ({u} → {v})', f'preamp ({u} → {v})']
            elif flavour == 'inline_voa_only':
                # two spans with an in-line amplifier for which the operator only fixed a 5 dB output VOA
                els += [fiber(f'fiber ({u} → {v})-1', km), {'uid': f'ila ({u} → {v})', 'type': 'Edfa', 'operational': {'out_voa': 5.0}},
                        fiber(f'fiber ({u} → {v})-2', km)]
                names += [f'fiber ({u} → {v})-1', f'ila ({u} → {v})', f'fiber ({u} → {v})-2']
            elif flavour == 'booster_voa_then_auto':
                # operator booster with a 2 dB output VOA, followed by an amplifier left entirely to the design
                els += [{'uid': f'booster ({u} → {v})', 'type': 'Edfa', 'type_variety': 'std_medium_gain',
                         'operational': {'gain_target': 21.0, 'out_voa': 2.0}},
                        fiber(f'fiber ({u} → {v})', km),
                        {'uid': f'preamp ({u} → {v})', 'type': 'Edfa', 'operational': {}}]
                names += [f'booster ({u} → {v})', f'fiber ({u} → {v})', f'preamp ({u} → {v})']
            elif flavour in ('user_amps_full', 'user_amps_partial'):
                full = flavour == 'user_amps_full'
                els += [{'uid': f'booster ({u} → {v})', 'type': 'Edfa', 'type_variety': 'std_medium_gain',
                         'operational': {'gain_target': 18.0, 'delta_p': 0, 'tilt_target': 0, 'out_voa': 1.0} if full else {}},
                        fiber(f'fiber ({u} → {v})', km),
                        {'uid': f'preamp ({u} → {v})', 'type': 'Edfa', **({'type_variety': 'std_low_gain'} if full else {}),
                         'operational': {'gain_target': 17.0, 'delta_p': 0, 'tilt_target': 0, 'out_voa': 0.0} if full else {}}]
                names += [f'booster ({u} → {v})', f'fiber ({u} → {v})', f'preamp ({u} → {v})']
            else:
                els += [fiber(f'fiber ({u} → {v})', km)]
                names += [f'fiber ({u} → {v})']
            names.append(f'roadm {v}')
            cx += [{'from_node': x, 'to_node': y} for x, y in zip(names[:-1], names[1:])]
    # a plain terminal (transceiver plugged straight onto the line, no ROADM at that end) attached to the first ROADM site
    terminal = ctx.choice('terminal without ROADM', ['none', 'one_fibre', 'two_fibres'])
    if terminal != 'none':
        loc = {'location': {'latitude': 9, 'longitude': 9, 'city': 'T', 'region': ''}}
        els.append({'uid': 'trx T', 'type': 'Transceiver', 'metadata': loc})
        for tag, ends in (('out', ('trx T', f'roadm {sites[0]}')), ('in', (f'roadm {sites[0]}', 'trx T'))):
            fs = [dict(FIB, uid=f'fiber T {tag} {i}', params={'length': 70 + 10 * i, 'length_units': 'km', 'loss_coef': 0.2}, metadata=loc)
                  for i in range(1 if terminal == 'one_fibre' else 2)]
            els += fs
            names = [ends[0]] + [f['uid'] for f in fs] + [ends[1]]
            cx += [{'from_node': x, 'to_node': y} for x, y in zip(names[:-1], names[1:])]
    return els, cx, sites, dict(shape=shape, flavour=flavour, km=km, terminal=terminal)


def h_pipeline(ctx):
    from gnpy.core.elements import Roadm, Transceiver, Edfa, Fiber, Fused, Multiband_amplifier
    eqpt = deepcopy(equipment())
    els, cx, sites, desc = _topology(ctx)
    # the library gives the maximum span length in km or in m
    units = ctx.choice('Span max_length units', ['km', 'm'])
    desc['max_length_units'] = units
    if units == 'm':
        eqpt['Span']['default'].max_length = eqpt['Span']['default'].max_length * 1000
        eqpt['Span']['default'].length_units = 'm'
    g, by = build_elements(els, eqpt, connections=cx)
    orig_fibres = {e['uid']: e['params']['length'] for e in els if e['type'] == 'Fiber'}
    orig_reach = {(a, b) for a in sites for b in sites if a != b and nx.has_path(g, by[f'roadm {a}'], by[f'roadm {b}'])}
    try:
        design(g, eqpt)
    except Exception as e:      # noqa: every topology of the grammar is well formed, so any failure of auto-design counts
        ctx.prove('auto-design completes on a well-formed topology', False, info=dict(desc, error=f'{type(e).__name__}: {e}'))
        return
    ctx.prove('auto-design completes on a well-formed topology', True, info=desc)
    span = eqpt['Span']['default']
    max_km = span.max_length if units == 'km' else span.max_length / 1000
    nodes = list(g.nodes())
    ctx.prove('unique names', len({x.uid for x in nodes}) == len(nodes), info=desc)
    for x in nodes:
        if isinstance(x, (Edfa,)):
            ok = bool(x.params.type_variety) and x.params.type_variety in eqpt['Edfa'] and x.effective_gain is not None and \
                x.out_voa is not None and (x.delta_p is not None or not span.power_mode)
            ctx.prove('amplifier has a library model, a gain, an output VOA and a power target', ok,
                      info=dict(desc, amp=x.uid, variety=x.params.type_variety, gain=x.effective_gain, voa=x.out_voa, dp=x.delta_p))
        if isinstance(x, Fiber):
            ctx.prove('fibre has connector losses', x.params.con_in is not None and x.params.con_out is not None, info=dict(desc, fiber=x.uid))
            ctx.prove('fibre not longer than the maximum span length', x.params.length <= max_km * 1000 + 1e-6, info=dict(desc, fiber=x.uid))
        if isinstance(x, (Fiber, Fused, Edfa, Multiband_amplifier)):
            ctx.prove('line elements have exactly one input and one output', g.in_degree(x) == 1 and g.out_degree(x) == 1, info=dict(desc, el=x.uid))
    # junctions
    for a, b in g.edges():
        if isinstance(a, Fiber) and isinstance(b, Fiber):
            ctx.prove('no fibre-to-fibre junction left without amplifier', False, info=dict(desc, a=a.uid, b=b.uid))
        if (isinstance(a, Roadm) and isinstance(b, Fiber)) or (isinstance(a, Fiber) and isinstance(b, Roadm)):
            ctx.prove('no ROADM-to-fibre junction left without amplifier', False, info=dict(desc, a=a.uid, b=b.uid))
    ctx.prove('junction scan done', True)
    # split spans: equal, summing to the original length
    for uid, km in orig_fibres.items():
        parts = [x for x in nodes if isinstance(x, Fiber) and (x.uid == uid or x.uid.startswith(uid + '_('))]
        tot = sum(p.params.length for p in parts)
        ctx.prove('split spans are equal and sum to the original length', abs(tot - km * 1000) < 1e-6 and
                  max(p.params.length for p in parts) - min(p.params.length for p in parts) < 1e-6, info=dict(desc, fiber=uid, parts=len(parts)))
    # padding on every amplifier-to-amplifier span without Raman
    for x in nodes:
        if isinstance(x, Edfa):
            prev = next(g.predecessors(x))
            if isinstance(prev, (Fiber, Fused)):
                loss, cur = 0.0, prev
                while isinstance(cur, (Fiber, Fused)):
                    loss += cur.loss
                    cur = next(g.predecessors(cur))
                ctx.prove('span before an amplifier has at least the padding loss', loss >= span.padding - 1e-9, info=dict(desc, amp=x.uid, loss=loss))
    new_reach = {(a, b) for a in sites for b in sites if a != b and nx.has_path(g, by[f'roadm {a}'], by[f'roadm {b}'])}
    ctx.prove('ROADM reachability unchanged', new_reach == orig_reach, info=desc)


def h_raman_span(ctx):
    """auto-design of a line containing a RamanFiber span in every position relative to amplifiers (after a ROADM, after an
    operator amplifier, after an amplifier the design has to choose, followed by another fibre), power and gain mode: the
    design completes, every amplifier is complete, the Raman span is not padded"""
    from gnpy.core.elements import Edfa, RamanFiber, Fiber
    eqpt = deepcopy(equipment())
    variant = ctx.choice('position of the Raman span', ['after ROADM', 'after operator amplifier', 'after auto amplifier', 'before a fibre',
                                                         'after a fibre', 'after another Raman span'])
    eqpt['Span']['default'].power_mode = ctx.choice('Span power_mode', [True, False])
    loc = {'location': {'city': 'x', 'region': '', 'latitude': 0, 'longitude': 0}}
    rf = {'uid': 'rf', 'type': 'RamanFiber', 'type_variety': 'SSMF', 'metadata': loc,
          'params': {'length': 80, 'length_units': 'km', 'loss_coef': 0.2, 'con_in': 0.5, 'con_out': 0.5},
          'operational': {'temperature': 283, 'raman_pumps': [{'power': 0.2, 'frequency': 205e12, 'propagation_direction': 'counterprop'}]}}
    fib = lambda u: {'uid': u, 'type': 'Fiber', 'type_variety': 'SSMF', 'metadata': loc,      # noqa
                     'params': {'length': 80, 'length_units': 'km', 'loss_coef': 0.2}}
    els = [{'uid': f'trx {s}', 'type': 'Transceiver', 'metadata': loc} for s in 'AB'] + \
          [{'uid': f'roadm {s}', 'type': 'Roadm', 'metadata': loc} for s in 'AB'] + [rf, fib('back')]
    cx = [('trx A', 'roadm A'), ('roadm A', 'trx A'), ('trx B', 'roadm B'), ('roadm B', 'trx B'), ('roadm B', 'back'), ('back', 'roadm A')]
    if variant == 'after ROADM':
        cx += [('roadm A', 'rf'), ('rf', 'roadm B')]
    elif variant == 'after operator amplifier':
        els.append({'uid': 'amp', 'type': 'Edfa', 'type_variety': 'std_medium_gain', 'metadata': loc,
                    'operational': {'gain_target': 20, 'tilt_target': 0, 'out_voa': 0}})
        cx += [('roadm A', 'amp'), ('amp', 'rf'), ('rf', 'roadm B')]
    elif variant == 'after auto amplifier':
        els += [fib('f0'), {'uid': 'amp', 'type': 'Edfa', 'metadata': loc}]
        cx += [('roadm A', 'f0'), ('f0', 'amp'), ('amp', 'rf'), ('rf', 'roadm B')]
    elif variant == 'after a fibre':
        els.append(fib('f0'))
        cx += [('roadm A', 'f0'), ('f0', 'rf'), ('rf', 'roadm B')]
    elif variant == 'after another Raman span':
        els.append(dict(deepcopy(rf), uid='rf0'))
        cx += [('roadm A', 'rf0'), ('rf0', 'rf'), ('rf', 'roadm B')]
    else:
        els.append(fib('f1'))
        cx += [('roadm A', 'rf'), ('rf', 'f1'), ('f1', 'roadm B')]
    g, by = build_elements(els, eqpt, connections=[{'from_node': a, 'to_node': b} for a, b in cx])
    info = dict(variant=variant, power_mode=eqpt['Span']['default'].power_mode)
    try:
        design(g, eqpt)
        err = None
    except Exception as e:      # noqa
        err = f'{type(e).__name__}: {e}'
    ctx.prove('auto-design completes on a line with a Raman span', err is None, info=dict(info, error=err))
    if err is not None:
        return
    for x in g.nodes():
        if isinstance(x, Edfa):
            ctx.prove('amplifier has a library model, a gain and an output VOA', bool(x.params.type_variety) and x.effective_gain is not None
                      and x.out_voa is not None, info=dict(info, amp=x.uid))
        if isinstance(x, RamanFiber):
            ctx.prove('Raman span is not padded', float(x.params.att_in) == 0.0, info=info)
        if isinstance(x, Fiber):
            ctx.prove('one-in/one-out', g.in_degree(x) == 1 and g.out_degree(x) == 1, info=info)
    for a, b in g.edges():
        if isinstance(a, Fiber) and isinstance(b, Fiber):
            ctx.prove('no fibre-to-fibre junction left without amplifier', False, info=dict(info, a=a.uid, b=b.uid))


def jobs(tier):
    js = []
    for max_km, pad in ((150, 10), (100, 12), (100, 10)):
        js.append(dict(name=f'H8a:split_fiber:max{max_km}km:padding{pad}', fn='h_split', params=dict(max_km=max_km, padding=pad), cost=30,
                       witness_every=1))
    for fibre in FIBRE_PARAMS:
        if fibre != 'scalar':
            js.append(dict(name=f'H8a:split_fiber:max150km:padding10:{fibre}', fn='h_split',
                           params=dict(max_km=150, padding=10, fibre=fibre), cost=30, witness_every=1,
                           continue_after_violation=fibre == 'lumped_losses'))
    # (also registered under C17: a saved design must carry the operator values of the spans it created)
    for layout in ('single', 'spliced', 'two_spans'):
        js.append(dict(name=f'H8c:connectors_and_padding:{layout}', fn='h_padding', params=dict(layout=layout), cost=60))
    js.append(dict(name='H8e:raman_span_in_every_position', fn='h_raman_span', cost=150, witness_every=1,
                   budget_s=250 if tier == 'quick' else 600, continue_after_violation=True))
    # every amplifier gets a model: the selection itself never fails internally, for any required gain and power
    for lib in ('vg3', 'lowpower+highgainmin', 'vg+fixed+highpower'):
        js.append(dict(name=f'H8d:amplifier_selection_always_answers:{lib}', module='harness.c10', fn='h_select',
                       params=dict(lib=lib, raman_allowed=False), cost=100, witness_every=5, budget_s=200 if tier == 'quick' else 600))
    js.append(dict(name='H8b:designed_network:shape_grammar', fn='h_pipeline', cost=200, witness_every=1, budget_s=250 if tier == 'quick' else 600))
    return js
