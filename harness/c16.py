"""C16 — each request's result is independent of the other requests in the batch."""
import json
from copy import deepcopy

import numpy as np

from harness.common import *      # noqa
from harness import common, elems
from symx.core import SR, approx

setup = common.setup

META = dict(
    level='model_checking',
    explanation='symx non-interference: the real requests_aggregation, compute_path_dsjctn and compute_path_with_disjunction run on a '
                'designed two-ROADM line (both directions) with requests whose transmit powers are symbolic and amplifiers whose p_max is '
                'symbolic (so that a denser comb saturates); the receiver figures of request B obtained in a batch (after / before / '
                'between other requests, bidirectional and blocked ones included) are compared, as symbolic expressions, with those '
                'obtained when B is computed alone on a fresh copy; equal expressions reduce to the zero polynomial, a leak of run-time '
                'state makes B depend on the other request\'s power and z3 returns the power exposing it; network export before/after',
    bounds=['one 80 km span per direction, 2-3 channels per request, 2-3 requests per batch, both orders',
            'symbolic: tx power of each request (below/above the ROADM target, forked), amplifier p_max',
            'H16b: two service entries, optional keys max-nb-of-channel / output-power / tx_power / effective-freq-slot / explicit route each '
            'present, null or absent (9216 patterns), powers symbolic',
            'H16c: triangle (ring4, ring4+chord thorough) with symbolic link lengths, two requests with 5 include options each, same or '
            'opposite end points, both orders',
            'H16d: GGN methods with computed_number_of_channels = 2, two successive combs of 2 / 4 / 6 channels (GGN integrals stubbed)'],
    assumptions=['floats as reals', 'spectrum slots (which legitimately depend on earlier requests) are not compared'],
    stubs=['NliSolver.compute_nli -> zero NLI (process-local, this harness only)'],
)


def _network(ctx, pmax_sym=True):
    eqpt = deepcopy(equipment())
    els, cx = [], []
    for s in 'AB':
        els += [{'uid': f'trx {s}', 'type': 'Transceiver'}, {'uid': f'roadm {s}', 'type': 'Roadm'}]
        cx += [{'from_node': f'trx {s}', 'to_node': f'roadm {s}'}, {'from_node': f'roadm {s}', 'to_node': f'trx {s}'}]
    for u, v in (('A', 'B'), ('B', 'A')):
        els += [{'uid': f'booster {u}{v}', 'type': 'Edfa', 'type_variety': 'std_medium_gain', 'operational': {'gain_target': 21.0, 'delta_p': 1.0,
                                                                                                       'tilt_target': 0, 'out_voa': 0}},
                {'uid': f'fiber {u}{v}', 'type': 'Fiber', 'type_variety': 'SSMF',
                 'params': {'length': 80, 'length_units': 'km', 'loss_coef': 0.2, 'con_in': 0.5, 'con_out': 0.5, 'att_in': 0}},
                {'uid': f'preamp {u}{v}', 'type': 'Edfa', 'type_variety': 'std_medium_gain', 'operational': {'gain_target': 17.0, 'delta_p': 0.0,
                                                                                                      'tilt_target': 0, 'out_voa': 0}}]
        names = [f'roadm {u}', f'booster {u}{v}', f'fiber {u}{v}', f'preamp {u}{v}', f'roadm {v}']
        cx += [{'from_node': a, 'to_node': b} for a, b in zip(names[:-1], names[1:])]
    g, by = build_elements(els, eqpt, connections=cx)
    g.graph['network_name'] = None
    design(g, eqpt, no_insert_edfas=True)
    return g, by, eqpt


def _req(ctx, rid, src, dst, power, spacing, nch, bidir=False, osnr=11):
    from gnpy.topology.request import PathRequest
    f_min = 193.0e12
    f_max = f_min + spacing * nch + 1e9
    return PathRequest(request_id=rid, source=f'trx {src}', destination=f'trx {dst}', bidir=bidir, trx_type='Voyager', trx_mode='mode 1',
                       baud_rate=32e9, nodes_list=[], loose_list=[], format='mode 1', bit_rate=100e9, roll_off=0.15, OSNR=osnr, penalties={},
                       path_bandwidth=100e9, f_min=f_min, f_max=f_max, spacing=spacing, min_spacing=37.5e9, cost=1, nb_channel=nch,
                       power=1e-3, equalization_offset_db=0, tx_power=power, tx_osnr=40, effective_freq_slot=[{'N': None, 'M': None}])


def _figures(path):
    rx = path[-1]
    return dict(snr=list(rx.snr), snr01=list(rx.snr_01nm), osnr=list(rx.osnr_ase), osnr01=list(rx.osnr_ase_01nm))


def h_independence(ctx, scenario):
    from gnpy.core.elements import Edfa
    from gnpy.tools.json_io import network_to_json
    from gnpy.topology.request import compute_path_dsjctn, compute_path_with_disjunction, requests_aggregation
    from gnpy.topology.spectrum_assignment import build_oms_list
    symbolic_ctors(ctx)
    elems.set_sim_params()
    # environment stub: no nonlinear interference (the independence property does not depend on the NLI physics, and the cubic
    # NLI terms make the symbolic expressions explode)
    import gnpy.core.science_utils as su
    if not getattr(su.NliSolver, '_verif_stubbed', False):
        su.NliSolver.compute_nli = staticmethod(lambda spectral_info, srs, fiber: np.zeros(spectral_info.number_of_channels))
        su.NliSolver._verif_stubbed = True
    pA = ctx.real('tx_power_A_w', lo=1e-6, hi=5e-3)
    pB = ctx.real('tx_power_B_w', lo=1e-6, hi=5e-3)
    pmax_mw = ctx.real('amplifier_p_max_mw', lo=0.5, hi=200)

    def fresh():
        g, by, eqpt = _network(ctx)
        for n in g.nodes():
            if isinstance(n, Edfa):
                n.params.p_max = 10 * elems.log10(ctx, pmax_mw)
        build_oms_list(g, eqpt)
        return g, by, eqpt

    def gains(g):
        return {n.uid: (n.effective_gain, n.delta_p, n.out_voa) for n in g.nodes() if isinstance(n, Edfa)}

    def batch(specs):
        g, by, eqpt = fresh()
        before = gains(g)
        rqs = [_req(ctx, *s) for s in specs]
        rqs, dsj = requests_aggregation(rqs, [])
        pths = compute_path_dsjctn(g, eqpt, rqs, [])
        prop, rev, revprop = compute_path_with_disjunction(g, eqpt, rqs, pths)
        after = gains(g)
        same = all((after[u][i] is before[u][i]) or (not is_symbolic(after[u][i]) and not is_symbolic(before[u][i]) and after[u][i] == before[u][i])
                   for u in before for i in range(3))
        return {r.request_id: (r, p, rp) for r, p, rp in zip(rqs, prop, revprop)}, same, [r.request_id for r in rqs]
    # request under observation: B, 3 channels at 50 GHz from B to A (uses the B->A line)
    specB = ('B', 'B', 'A', pB, 50e9, 2)
    dense = ('A', 'A', 'B', pA, 37.5e9, 3, True)          # dense, bidirectional: its reverse direction uses the B->A line
    blocked = ('C', 'B', 'A', pA, 50e9, 2, False, 60)   # same line, impossible threshold: blocked
    twin = ('T', 'B', 'A', pA, 50e9, 2)                 # identical to B except for its transmit power
    alone, same_net, ids = batch([specB])
    ref = _figures(alone['B'][1])
    ctx.prove('alone: network settings unchanged by computing requests', same_net)
    orders = {
        'after_dense_bidir': [dense, specB],
        'before_dense_bidir': [specB, dense],
        'after_blocked': [blocked, specB],
        'between': [dense, specB, blocked],
        'with_twin': [twin, specB],
    }[scenario]
    if scenario == 'with_twin':
        ctx.assume(Not(eq(pA, pB)) if ctx.mode == 'sym' else pA != pB)
    res, same_net, ids = batch(orders)
    info = dict(scenario=scenario, ids=ids)
    ctx.prove('every request appears once under its own id (requests differing in any parameter are not merged)',
              sorted(ids) == sorted(s[0] for s in orders), info=info)
    if 'B' not in res:
        return
    ctx.prove('batch: network settings unchanged by computing requests', same_net, info=info)
    rB, pthB, revB = res['B']
    ctx.prove('unidirectional request carries no propagated reverse path (nothing of another request attached to it)',
              len(revB) == 0, info=dict(info, reverse=[getattr(e, 'uid', '?') for e in revB][:4]))
    ctx.prove('same route', [e.uid for e in pthB] == [e.uid for e in alone['B'][1]], info=info)
    ctx.prove('same verdict and mode', getattr(rB, 'blocking_reason', None) == getattr(alone['B'][0], 'blocking_reason', None)
              and rB.tsp_mode == alone['B'][0].tsp_mode, info=info)
    got = _figures(pthB)
    for key in ('snr01', 'osnr01'):
        for i, (a, b) in enumerate(zip(got[key], ref[key])):
            ctx.prove(f'{key}[{i}] of B equals its stand-alone value', approx(10 ** (a / 10), 10 ** (b / 10), 1e-9), info=info)


def _strip(j):
    for e in j['elements']:
        e.pop('metadata', None)
    return j


def jobs(tier):
    js = []
    for sc in ('after_dense_bidir', 'before_dense_bidir', 'after_blocked', 'with_twin') + (('between',) if tier != 'quick' else ()):
        js.append(dict(name=f'H16:independence:{sc}', fn='h_independence', params=dict(scenario=sc), cost=500, witness_every=2,
                       budget_s=170 if tier == 'quick' else 700, opts=dict(query_timeout_ms=3000, branch_timeout_ms=1500, rf_budget=(400, 4000), witness_timeout_ms=5000)))
    for method in ('ggn_approx', 'ggn_spectrally_separated'):
        js.append(dict(name=f'H16d:simulation_parameters_not_changed_by_a_request:{method}', module='harness.c02', fn='h_nli_sim_params',
                       params=dict(method=method), cost=20))
    js.append(dict(name='H16b:request_parsing_independence', fn='h_parse_independence', cost=100, witness_every=50,
                   budget_s=170 if tier == 'quick' else 600))
    for sh in ('triangle',) + (('ring4', 'ring4+chord') if tier != 'quick' else ()):
        for ends in (('A', 'C'), ('C', 'A')) + ((('B', 'C'),) if tier != 'quick' else ()):
            for first, tag in enumerate(('none', 'loose', 'strict', 'loose_unsatisfiable', 'strict_unsatisfiable')):
                js.append(dict(name=f'H16c:route_independence:{sh}:second={ends[0]}->{ends[1]}:first_include={tag}', fn='h_route_independence',
                               params=dict(shape=sh, ends=ends, first=first), cost=100, witness_every=10,
                               budget_s=170 if tier == 'quick' else 300, opts=dict(no_ties=True)))
    return js


# ------------------------------------------------------------------------------------------ H16b request parsing

def _json_request(ctx, tag, rid, src, dst):
    """service-file entry whose optional keys are present / null / absent (value-forked) and whose powers are symbolic"""
    te = {'trx_type': 'Voyager', 'trx_mode': 'mode 1', 'spacing': 50e9, 'path_bandwidth': 100e9}
    nch = ctx.choice(f'{tag}: max-nb-of-channel', ['absent', None, 20, 40])
    if nch != 'absent':
        te['max-nb-of-channel'] = nch
    pw = ctx.choice(f'{tag}: output-power', ['absent', None, 'value'])
    if pw != 'absent':
        te['output-power'] = ctx.real(f'{tag}_output_power_w', lo=1e-5, hi=1e-2) if pw == 'value' else None
    tx = ctx.choice(f'{tag}: tx_power', ['absent', 'value'])
    if tx == 'value':
        te['tx_power'] = ctx.real(f'{tag}_tx_power_w', lo=1e-5, hi=1e-2)
    if ctx.choice(f'{tag}: effective-freq-slot', ['absent', 'given']) == 'given':
        te['effective-freq-slot'] = [{'N': 0, 'M': 4}]
    req = {'request-id': rid, 'source': src, 'destination': dst, 'src-tp-id': src, 'dst-tp-id': dst, 'bidirectional': False,
           'path-constraints': {'te-bandwidth': te}}
    if ctx.choice(f'{tag}: explicit route', ['absent', 'given']) == 'given':
        req['explicit-route-objects'] = {'route-object-include-exclude': [
            {'explicit-route-usage': 'route-include-ero', 'index': 0, 'num-unnum-hop': {'node-id': f'roadm {tag}', 'link-tp-id': 'x',
                                                                                        'hop-type': 'LOOSE'}}]}
    return req


def h_parse_independence(ctx):
    """requests_from_json (first step of planning()): every attribute of the request object built for B is the same whether B
    is parsed alone, after A or before A - for every presence/null/absence pattern of the optional keys of both"""
    from gnpy.tools.json_io import requests_from_json
    eqpt = equipment()
    a = _json_request(ctx, 'A', 'A', 'trx A', 'trx B')
    b = _json_request(ctx, 'B', 'B', 'trx B', 'trx A')
    alone = requests_from_json({'path-request': [deepcopy(b)]}, eqpt)[0]
    for order in ('after', 'before'):
        lst = [deepcopy(a), deepcopy(b)] if order == 'after' else [deepcopy(b), deepcopy(a)]
        got = {r.request_id: r for r in requests_from_json({'path-request': lst}, eqpt)}['B']
        diff = []
        for k, v in vars(alone).items():
            w = getattr(got, k, '<missing>')
            same = (v is w) or (bool(eq(v, w)) if (is_symbolic(v) or is_symbolic(w)) else v == w)
            if not same:
                diff.append((k, str(v), str(w)))
        ctx.prove(f'request parsed {order} another one has the attributes it has alone', not diff and set(vars(got)) == set(vars(alone)),
                  info=dict(order=order, differences=diff[:5]))


# ------------------------------------------------------------------------------------------ H16c routing

def h_route_independence(ctx, shape, ends, first):
    """compute_path_dsjctn on a mesh with symbolic link lengths: the route and blocking reason of every request of a batch
    of two (same or different end points, each with its own include list and hop types, satisfiable or not) are those it
    gets alone"""
    from harness.mesh import build_mesh, request
    from gnpy.topology.request import compute_path_dsjctn, correct_json_route_list
    m = build_mesh(ctx, shape, symmetric_lengths=True, with_oms=False)
    inner = [s for s in m.sites if s not in ('A', 'C')]
    far = inner[0]
    incs = [((), ()), ((f'roadm {far}',), ('LOOSE',)), ((f'roadm {far}',), ('STRICT',)),
            ((f'roadm C', f'roadm {far}'), ('LOOSE', 'LOOSE')), ((f'roadm C', f'roadm {far}'), ('STRICT', 'STRICT'))]
    inc1 = incs[first]
    inc2 = ctx.choice('include of request 2', incs)

    def mk(which):
        out = []
        if 1 in which:
            out.append(request('1', 'A', 'C', inc1[0], inc1[1], omit_lists=(first == 0)))
        if 2 in which:
            out.append(request('2', ends[0], ends[1], inc2[0], inc2[1], omit_lists=(not inc2[0])))
        return out

    def run(which, rev=False):
        rqs = mk(which)
        if rev:
            rqs.reverse()
        pths = compute_path_dsjctn(m.graph, m.eqpt, rqs, [])
        return {r.request_id: ([e.uid for e in p], getattr(r, 'blocking_reason', None)) for r, p in zip(rqs, pths)}
    alone = {**run((1,)), **run((2,))}
    info = dict(shape=shape, second=ends, include1=inc1, include2=inc2)
    for rev in (False, True):
        try:
            got = run((1, 2), rev)
            err = None
        except Exception as e:      # noqa
            got, err = {}, f'{type(e).__name__}: {e}'
        ctx.prove('the batch computes', err is None, info=dict(info, reversed_order=rev, error=err))
        for rid in got:
            ctx.prove(f'request {rid}: same route and same blocking reason as alone', got[rid] == alone[rid],
                      info=dict(info, reversed_order=rev, batch=got[rid], alone=alone[rid]))
            if not (inc1 if rid == '1' else inc2)[0]:
                # a request without include list on a connected mesh is always routed, whatever was computed before it
                ctx.prove(f'request {rid} (no include list): routed, not blocked', bool(got[rid][0]) and got[rid][1] is None,
                          info=dict(info, reversed_order=rev, batch=got[rid]))
