"""C01 — per-channel power always splits exactly into signal + ASE + NLI.

Inductive step: arbitrary valid pre-state (invariant I), one call of the real mutator / element, I and the documented
bookkeeping on the post-state.  One step from an arbitrary valid state covers operation sequences of any length."""
from harness.common import *      # noqa
from harness import common
from harness import elems

setup = common.setup

META = dict(
    level='model_checking',
    explanation='bounded symbolic execution (symx) of the real SpectralInformation mutators and element __call__ methods '
                'on numpy object arrays of z3 reals; every obligation is a z3 query over all positive powers and all valid '
                'signal/ASE/NLI splits; solver models of every path are replayed on the float implementation',
    bounds=['channels k<=3 (quick) / 5 (thorough)', 'one element step from an arbitrary state satisfying I',
            'floats modelled as reals', 'NLI added <= channel power (the property\'s own caveat)',
            'reported-ratio identity also with the ASE share or the NLI share exactly zero on every channel',
            'input spectrum object re-inspected after an amplifier call (aliasing of share arrays)'],
    assumptions=['Python floats are modelled as mathematical reals; IEEE rounding is outside the claim',
                 'pre-state satisfies I: p>0, s>0, a,n>=0, s+a+n=1 (n defined as 1-s-a)',
                 'added NLI power 0<=nli<=p per channel; added ASE >= 0; gains/attenuations > 0',
                 'division by symbolic denominators assumes the denominator non-zero'],
    stubs=[],
)


def h_mutator(ctx, op, k):
    from gnpy.core import info
    si = make_si(ctx, k)
    pre = snap(si)
    if op == 'atten_lin':
        g = [ctx.real(f'g{i}', lo=0, lo_strict=True, hi=1) for i in range(k)]
        si.apply_attenuation_lin(arr(g))
        exp_p = [pre['p'][i] * g[i] for i in range(k)]
    elif op == 'atten_db':
        g = [ctx.pos_real(f'g{i}') for i in range(k)]     # attenuation in linear units, dB value = 10log10(g)
        gdb = [10 * x.log10() if ctx.mode == 'sym' else 10 * np.log10(x) for x in g]
        si.apply_attenuation_db(arr(gdb))
        exp_p = [pre['p'][i] / g[i] for i in range(k)]
    elif op == 'gain_lin':
        g = [ctx.pos_real(f'g{i}') for i in range(k)]
        si.apply_gain_lin(arr(g))
        exp_p = [pre['p'][i] * g[i] for i in range(k)]
    elif op == 'gain_db':
        g = [ctx.pos_real(f'g{i}') for i in range(k)]
        gdb = [10 * x.log10() if ctx.mode == 'sym' else 10 * np.log10(x) for x in g]
        si.apply_gain_db(arr(gdb))
        exp_p = [pre['p'][i] * g[i] for i in range(k)]
    elif op == 'add_ase':
        e = [ctx.real(f'ase{i}', lo=0) for i in range(k)]
        si.add_ase(arr(e))
        exp_p = [pre['p'][i] + e[i] for i in range(k)]
        for i in range(k):
            ctx.prove(f'add_ase:signal_power_kept[{i}]', eq(si.signal[i], pre['p'][i] * pre['s'][i]))
            ctx.prove(f'add_ase:nli_power_kept[{i}]', eq(si.nli[i], pre['p'][i] * pre['n'][i]))
            ctx.prove(f'add_ase:ase_power_added[{i}]', eq(si.ase[i], pre['p'][i] * pre['a'][i] + e[i]))
    elif op == 'add_nli':
        e = [ctx.real(f'nli{i}', lo=0) for i in range(k)]
        for i in range(k):
            ctx.assume(le(e[i], pre['p'][i]))
        si.add_nli(arr(e))
        exp_p = list(pre['p'])
        for i in range(k):
            # power transfer from the channel to NLI: signal and ASE scaled by the same (1 - nli/p)
            ctx.prove(f'add_nli:signal_scaled[{i}]', eq(si.signal[i] * pre['p'][i], pre['p'][i] * pre['s'][i] * (pre['p'][i] - e[i])))
            ctx.prove(f'add_nli:ase_scaled[{i}]', eq(si.ase[i] * pre['p'][i], pre['p'][i] * pre['a'][i] * (pre['p'][i] - e[i])))
            ctx.prove(f'add_nli:nli_power[{i}]', eq(si.nli[i] * pre['p'][i], pre['p'][i] * pre['n'][i] * (pre['p'][i] - e[i]) + e[i] * pre['p'][i]))
    else:
        raise ValueError(op)
    for i in range(k):
        ctx.prove(f'{op}:total_power[{i}]', eq(si._pch[i], exp_p[i]))
        if op not in ('add_ase', 'add_nli'):
            ctx.prove(f'{op}:ratios_untouched[{i}]', And(eq(si._signal_ratio[i], pre['s'][i]), eq(si._ase_ratio[i], pre['a'][i]),
                                                          eq(si._nli_ratio[i], pre['n'][i])))
    prove_invariant(ctx, si, op)


def h_select_mux(ctx, k):
    """select_channels / demux by band / mux (SpectralInformation.__add__) keep each channel's power and split"""
    from gnpy.core import info
    si = make_si(ctx, k, spacing=100e9, slot=50e9)
    pre = snap(si)
    # band edge placed so that the first j channels are in band 1, the rest in band 2
    j = ctx.choice('split', list(range(0, k + 1)))
    f = pre['f']
    lo, hi = f[0] - 100e9, f[-1] + 100e9
    mid = (f[j - 1] + 50e9) if j > 0 else lo + 1e9
    b1 = {'f_min': lo, 'f_max': mid}
    b2 = {'f_min': mid, 'f_max': hi}
    parts = [info.demuxed_spectral_information(si, b) for b in (b1, b2)]
    n1 = parts[0].number_of_channels if parts[0] is not None else 0
    n2 = parts[1].number_of_channels if parts[1] is not None else 0
    ctx.prove('demux:partition_sizes', n1 == j and n2 == k - j)
    out = info.muxed_spectral_information([p for p in reversed(parts) if p is not None])
    ctx.prove('mux:channel_count', out.number_of_channels == k)
    for i in range(k):
        ctx.prove(f'mux:same_channel[{i}]', out.frequency[i] == f[i] and out.label[i] == pre['label'][i])
        ctx.prove(f'mux:power_kept[{i}]', eq(out._pch[i], pre['p'][i]))
        ctx.prove(f'mux:split_kept[{i}]', And(eq(out._signal_ratio[i], pre['s'][i]), eq(out._ase_ratio[i], pre['a'][i]),
                                              eq(out._nli_ratio[i], pre['n'][i])))
    prove_invariant(ctx, out, 'mux')
    for part, nm in zip(parts, ('band1', 'band2')):
        if part is not None:
            prove_invariant(ctx, part, nm)


def h_derived(ctx, k, zero='none'):
    """the reported ratios are derived from the same three shares: 1/GSNR = 1/OSNR_ASE + 1/SNR_NLI (linear); also when one
    of the two noise shares is exactly zero on every channel (a line without amplifier: NLI but no ASE; amplifiers without
    fibre: ASE but no NLI), where the identity reads GSNR = the other ratio"""
    import math
    si = make_si(ctx, k)
    if zero == 'none':
        for i in range(k):
            ctx.assume(gt(si._ase_ratio[i], 0))
            ctx.assume(gt(si._nli_ratio[i], 0))
    else:
        keep = si._nli_ratio if zero == 'ase' else si._ase_ratio
        for i in range(k):
            ctx.assume(gt(keep[i], 0))
        sig = np.empty(k, dtype=object)
        for i in range(k):
            sig[i] = 1 - keep[i]
        si._signal_ratio = sig if ctx.mode == 'sym' else np.array([float(x) for x in sig])
        if zero == 'ase':
            si._ase_ratio = np.zeros(k)
        else:
            si._nli_ratio = np.zeros(k)
    g, sa, sn = si.gsnr, si.snr_lin, si.snr_nli
    for i in range(k):
        finite = is_symbolic(g[i]) or math.isfinite(g[i])
        ctx.prove(f'derived:gsnr_finite_when_noise_present[{i}]', finite, info=dict(zero=zero, gsnr=str(g[i])))
        if not finite:
            continue
        if zero == 'none':
            ctx.prove(f'derived:inverse_sum[{i}]', eq(1 / g[i], 1 / sa[i] + 1 / sn[i]))
        else:
            ctx.prove(f'derived:gsnr_is_the_remaining_ratio[{i}]', eq(g[i], sn[i] if zero == 'ase' else sa[i]), info=dict(zero=zero))
        ctx.prove(f'derived:gsnr_def[{i}]', eq(g[i] * (si.ase[i] + si.nli[i]), si.signal[i]))
        ctx.prove(f'derived:db_consistent[{i}]', eq(si.gsnr_db[i], 10 * (g[i].log10() if ctx.mode == 'sym' else np.log10(g[i]))))


def jobs(tier):
    ks = [1, 2, 3] if tier == 'quick' else [1, 2, 3, 4, 5]
    js = []
    for op in ('atten_lin', 'atten_db', 'gain_lin', 'gain_db', 'add_ase', 'add_nli'):
        for k in ks:
            js.append(dict(name=f'H1a:{op}:k{k}', fn='h_mutator', params=dict(op=op, k=k)))
    for k in ks[1:]:
        js.append(dict(name=f'H1a:select_mux:k{k}', fn='h_select_mux', params=dict(k=k)))
    for k in ks:
        js.append(dict(name=f'H1c:derived:k{k}', fn='h_derived', params=dict(k=k)))
        for z in ('ase', 'nli'):
            js.append(dict(name=f'H1c:derived:k{k}:zero_{z}', fn='h_derived', params=dict(k=k, zero=z)))
    for k in ks:
        js.append(dict(name=f'H1c:trx:k{k}', module='harness.elems', fn='h_trx', params=dict(k=k, n_added=0, props=('C01',))))
    js.append(dict(name='H1c:trx:update_twice:k2', module='harness.elems', fn='h_trx',
                   params=dict(k=2, n_added=2, props=('C01',), repeat=2)))
    for k in ks[1:]:
        for via in ('init', 'add'):
            js.append(dict(name=f'H1a:construct_interleaved:{via}:k{k}', fn='h_construct_interleaved', params=dict(k=k, via=via)))
    for nb in (2, 3):
        js.append(dict(name=f'H1a:mux_of_{nb}_bands_any_order', module='harness.c07', fn='h_mux_many', params=dict(nbands=nb), cost=20))
    js += elems.jobs_c01(tier)
    return js


def h_construct_interleaved(ctx, k, via):
    """SpectralInformation built from channels supplied in an arbitrary (interleaved) order, directly or by adding two
    interleaved combs: every per-channel quantity stays attached to its own carrier"""
    import itertools
    from gnpy.core.info import SpectralInformation
    symbolic_ctors(ctx)
    perms = list(itertools.permutations(range(k)))
    perm = ctx.choice('order', perms)
    f = [193.0e12 + 100e9 * i for i in range(k)]
    ref = make_si(ctx, k, freqs=f, spacing=100e9, slot=50e9, extra=dict(
        chromatic_dispersion=arr([1e-3 * (i + 1) for i in range(k)]), pmd=arr([1e-12 * (i + 1) for i in range(k)]),
        pdl=arr([0.1 * (i + 1) for i in range(k)]), latency=arr([1e-4 * (i + 1) for i in range(k)]),
        roll_off=arr([0.1 + 0.01 * i for i in range(k)])))
    pre = snap(ref)
    raw = ref._verif_raw
    for i in range(k):
        ctx.prove(f'construct:object_holds_the_shares_it_was_given[{i}]',
                  And(eq(ref._pch[i], raw['p'][i]), eq(ref._signal_ratio[i], raw['s'][i]), eq(ref._ase_ratio[i], raw['a'][i]),
                      eq(ref._nli_ratio[i], raw['n'][i])))

    def sub(idx):
        idx = list(idx)
        pick = lambda a: arr([a[i] for i in idx])        # noqa
        lab = np.array([pre['label'][i] for i in idx], dtype=object)
        return SpectralInformation(
            frequency=arr([f[i] for i in idx]), baud_rate=pick(ref.baud_rate), slot_width=pick(ref.slot_width),
            pch=pick(pre['p']), signal_ratio=pick(pre['s']), ase_ratio=pick(pre['a']), nli_ratio=pick(pre['n']),
            roll_off=pick(ref.roll_off), chromatic_dispersion=pick(ref.chromatic_dispersion), pmd=pick(ref.pmd),
            pdl=pick(ref.pdl), latency=pick(ref.latency), delta_pdb_per_channel=pick(ref.delta_pdb_per_channel),
            tx_osnr=pick(ref.tx_osnr), tx_power=pick(ref.tx_power), label=lab)
    if via == 'init':
        out = sub(perm)
    else:
        # two interleaved combs in the given order: first gets positions perm[0::2], second perm[1::2]
        a, b = sub(perm[0::2]), sub(perm[1::2])
        out = a + b
    ctx.prove('construct:channel_count', out.number_of_channels == k)
    for i in range(k):
        ctx.prove(f'construct:sorted_by_frequency[{i}]', out.frequency[i] == f[i])
        ctx.prove(f'construct:label_follows_carrier[{i}]', out.label[i] == pre['label'][i])
        ctx.prove(f'construct:power_follows_carrier[{i}]', eq(out._pch[i], pre['p'][i]))
        ctx.prove(f'construct:signal_share_follows_carrier[{i}]', eq(out._signal_ratio[i], pre['s'][i]))
        ctx.prove(f'construct:ase_share_follows_carrier[{i}]', eq(out._ase_ratio[i], pre['a'][i]))
        ctx.prove(f'construct:nli_share_follows_carrier[{i}]', eq(out._nli_ratio[i], pre['n'][i]))
        ctx.prove(f'construct:accumulated_cd_pmd_pdl_latency_follow_carrier[{i}]',
                  float(out.chromatic_dispersion[i]) == 1e-3 * (i + 1) and float(out.pmd[i]) == 1e-12 * (i + 1) and
                  float(out.pdl[i]) == 0.1 * (i + 1) and float(out.latency[i]) == 1e-4 * (i + 1) and float(out.roll_off[i]) == 0.1 + 0.01 * i,
                  info=dict(order=list(perm), pdl=[float(x) for x in out.pdl], cd=[float(x) for x in out.chromatic_dispersion]))
        ctx.prove(f'construct:cd_pmd_follow_carrier[{i}]', out.chromatic_dispersion[i] == ref.chromatic_dispersion[i]
                  and out.pmd[i] == ref.pmd[i])
    prove_invariant(ctx, out, 'construct')
