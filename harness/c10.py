"""C10 — auto-selected amplifiers are allowed, capable and the quietest capable choice."""
import itertools
from copy import deepcopy

from harness.common import *      # noqa
from harness import common, elems
from symx.core import SR

setup = common.setup

META = dict(
    level='model_checking',
    explanation='symx: real select_edfa / filter_edfa_list_based_on_targets / edfa_nf (real Edfa._calc_nf per candidate) with symbolic '
                'required gain, output power and extended-gain allowance over sub-libraries of the shipped equipment; real '
                'get_node_restrictions with symbolic design-band edges over all precedence situations; Raman eligibility through the '
                'real build_network on a two-direction line with tabulated fibre loss around the configured limit',
    bounds=['sub-libraries of 3-4 models (variable gain, fixed gain, dual stage/Raman hybrid)', 'gain in [0, 45] dB, power in [-10, 30] dBm, '
            'allowance in [0, 6] dB', 'exact capability boundaries excluded (strict inequalities as in the statement)',
            'multiband preselection: synthetic library with two groups (gain_flatmax 20 / 30 dB), span loss in [13, 35] dB, total power in [10, 22.9] dBm'],
    assumptions=['floats as reals', 'NF of a candidate at the required gain is the value computed by the real Edfa NF model (verified under C04)',
                 'an amplifier between two restricted ROADMs (booster and preamp lists both present) is not ruled by the statement and is not checked'],
    stubs=[],
)

LIBS = {
    # a low-power model that fits low gains next to a high-power one with a high minimum gain
    'lowpower+highgainmin': ['high_detail_model_example', 'medium+low_gain', 'std_fixed_gain'],
    'vg3': ['std_low_gain', 'std_medium_gain', 'std_high_gain'],
    'vg+fixed+highpower': ['std_medium_gain', 'std_fixed_gain', 'high_power', 'std_low_gain'],
    'with_raman': ['std_medium_gain', 'std_high_gain', 'hybrid_4pumps_lowgain', 'hybrid_4pumps_mediumgain'],
}


def h_select(ctx, lib, raman_allowed):
    from gnpy.core.exceptions import ConfigurationError
    from gnpy.core.network import select_edfa, edfa_nf
    symbolic_ctors(ctx)
    eqpt = equipment()
    edfa_eqpt = {n: eqpt['Edfa'][n] for n in LIBS[lib]}
    g_lin = ctx.real('gain_target_lin', lo=1, hi=10 ** 4.5)
    p_mw = ctx.real('power_target_mw', lo=0.1, hi=1000)
    x_lin = ctx.real('extended_gain_lin', lo=1, hi=4)
    g, p, x = 10 * elems.log10(ctx, g_lin), 10 * elems.log10(ctx, p_mw), 10 * elems.log10(ctx, x_lin)
    try:
        variety, power_reduction = select_edfa(raman_allowed, g, p, edfa_eqpt, 'node', target_extended_gain=x, verbose=False)
        err = None
    except ConfigurationError as e:
        variety, err = None, e
    except Exception as e:          # noqa: anything else is an internal failure of the selection (auto-design would abort)
        ctx.prove('selection returns a model or refuses with a configuration error (no internal failure)', False,
                  info=dict(lib=lib, raman_allowed=raman_allowed, error=f'{type(e).__name__}: {e}'))
        return
    permitted = [n for n, a in edfa_eqpt.items() if raman_allowed or not a.raman]
    info = dict(lib=lib, raman_allowed=raman_allowed, chosen=variety)
    if err is not None:
        ctx.prove('selection fails only when the permitted set is empty', not [n for n in permitted if not edfa_eqpt[n].raman], info=info)
        return
    ctx.prove('chosen model belongs to the permitted set', variety in permitted, info=info)
    if variety not in permitted:
        return

    def capable(n):
        a = edfa_eqpt[n]
        min_gain_ok = bool(g > a.gain_min) if a.raman else bool(g + 3 > a.gain_min)
        return min_gain_ok and bool(g < a.gain_flatmax + x) and bool(p < a.p_max)
    caps = [n for n in permitted if capable(n)]
    if not caps:
        ctx.prove('no capable model: some permitted model is still proposed', True, info=info)
        return
    ctx.prove('if some permitted model is capable the chosen one is', variety in caps, info=dict(info, capable=caps))
    if variety not in caps:
        return
    nf_chosen = edfa_nf(g, edfa_eqpt[variety])
    for n in caps:
        if n == variety:
            continue
        ctx.prove('no permitted capable model is quieter at that gain', le(nf_chosen, edfa_nf(g, edfa_eqpt[n]) + 1e-9),
                  info=dict(info, other=n))
    ctx.prove('no power reduction when the chosen model is capable', bool(eq(power_reduction, 0)) if not is_symbolic(power_reduction)
              else eq(power_reduction, 0), info=info)


def h_restrictions(ctx):
    """permitted set: own variety list > booster list of a preceding ROADM > preamp list of a following ROADM > models
    flagged allowed_for_design; always restricted to models covering the design band"""
    from gnpy.core.elements import Roadm, Fiber
    from gnpy.core.network import get_node_restrictions
    eqpt = deepcopy(equipment())
    own = ctx.choice('own variety_list', [None, ['std_low_gain', 'high_power']])
    prev_kind = ctx.choice('previous node', ['fiber', 'roadm_with_booster_list', 'roadm_without_list'])
    next_kind = ctx.choice('next node', ['fiber', 'roadm_with_preamp_list', 'roadm_without_list'])
    if prev_kind == 'roadm_with_booster_list' and next_kind == 'roadm_with_preamp_list' and own is None:
        ctx.prove('amplifier between two restricted ROADMs: not ruled', True)
        return
    imposed = ctx.choice('imposed type_variety', ['', 'std_fixed_gain'])
    rp = lambda b, p: {'restrictions': {'booster_variety_list': b, 'preamp_variety_list': p}}      # noqa
    fib = {'type': 'Fiber', 'type_variety': 'SSMF', 'params': {'length': 50, 'length_units': 'km', 'loss_coef': 0.2, 'con_in': 0,
                                                               'con_out': 0, 'att_in': 0}}
    prev_el = dict(fib, uid='prev') if prev_kind == 'fiber' else \
        {'uid': 'prev', 'type': 'Roadm', 'params': rp(['std_medium_gain'] if 'with' in prev_kind.split('_')[1:2] else [], [])}
    next_el = dict(fib, uid='next') if next_kind == 'fiber' else \
        {'uid': 'next', 'type': 'Roadm', 'params': rp([], ['std_high_gain', 'std_medium_gain'] if 'with' in next_kind.split('_')[1:2] else [])}
    amp_el = {'uid': 'amp', 'type': 'Edfa'}
    if imposed:
        amp_el['type_variety'] = imposed
        amp_el['operational'] = {'gain_target': 20.0, 'tilt_target': 0, 'out_voa': 0}
    _, by = build_elements([prev_el, next_el, amp_el], eqpt)
    amp = by['amp']
    amp.variety_list = own
    # design band with symbolic edges; library models cover [191.275, 196.125] THz (Juniper_BoosterHG: [191.4, 196.1])
    f_lo = ctx.real('band_f_min', lo=190.8e12, hi=192.0e12)
    f_hi = ctx.real('band_f_max', lo=195.5e12, hi=196.5e12)
    got = get_node_restrictions(amp, by['prev'], by['next'], eqpt, {'CBAND': {'f_min': f_lo, 'f_max': f_hi}})
    info = dict(own=own, prev=prev_kind, next=next_kind, imposed=imposed, got=sorted(got))
    if imposed:
        ctx.prove('imposed type_variety is the only permitted model', got == [imposed], info=info)
        return
    if own:
        base = own
    elif prev_kind == 'roadm_with_booster_list':
        base = ['std_medium_gain']
    elif next_kind == 'roadm_with_preamp_list':
        base = ['std_high_gain', 'std_medium_gain']
    else:
        base = [n for n, a in eqpt['Edfa'].items() if a.allowed_for_design]
    want = sorted(n for n in base if eqpt['Edfa'][n].type_def != 'multi_band' and
                  bool(eqpt['Edfa'][n].f_min <= f_lo) and bool(eqpt['Edfa'][n].f_max >= f_hi))
    ctx.prove('permitted set follows the precedence and covers the design band', sorted(got) == want, info=dict(info, want=want))


LOSS_TABLES = {
    'all_below': [0.23, 0.24, 0.245],
    'straddling': [0.23, 0.25, 0.27],
    'one_point_above': [0.24, 0.2499, 0.2501],
    'all_above': [0.26, 0.27, 0.28],
    'scalar_below': 0.24,
    'scalar_above': 0.26,
}


def h_raman_eligibility(ctx, table):
    """Raman models are used only after a fibre whose loss coefficient is below the configured limit over the whole table"""
    eqpt = deepcopy(equipment())
    lim = eqpt['Span']['default'].max_fiber_lineic_loss_for_raman          # dB/km
    lc = LOSS_TABLES[table]
    loss = {'frequency': [191.3e12, 193.5e12, 196.1e12], 'value': lc} if isinstance(lc, list) else lc
    km = ctx.choice('span length km', [100, 115, 130])
    els = []
    cx = []
    for s in 'AB':
        els += [{'uid': f'trx {s}', 'type': 'Transceiver'}, {'uid': f'roadm {s}', 'type': 'Roadm'}]
        cx += [{'from_node': f'trx {s}', 'to_node': f'roadm {s}'}, {'from_node': f'roadm {s}', 'to_node': f'trx {s}'}]
    for u, v in (('A', 'B'), ('B', 'A')):
        els += [{'uid': f'fiber {u}{v}', 'type': 'Fiber', 'type_variety': 'SSMF',
                 'params': {'length': km, 'length_units': 'km', 'loss_coef': deepcopy(loss), 'con_in': 0.5, 'con_out': 0.5, 'att_in': 0}},
                {'uid': f'booster {u}{v}', 'type': 'Edfa'}, {'uid': f'preamp {u}{v}', 'type': 'Edfa'}]
        names = [f'roadm {u}', f'booster {u}{v}', f'fiber {u}{v}', f'preamp {u}{v}', f'roadm {v}']
        cx += [{'from_node': a, 'to_node': b} for a, b in zip(names[:-1], names[1:])]
    g, by = build_elements(els, eqpt, connections=cx)
    design(g, eqpt, no_insert_edfas=True)
    below = all(x < lim for x in (lc if isinstance(lc, list) else [lc]))
    for u, v in (('A', 'B'), ('B', 'A')):
        amp = by[f'preamp {u}{v}']
        is_raman = bool(eqpt['Edfa'][amp.params.type_variety].raman)
        ctx.prove('Raman model only after a fibre below the loss limit over its whole table', (not is_raman) or below,
                  info=dict(table=table, km=km, chosen=amp.params.type_variety, limit=lim))
        ctx.prove('booster after a ROADM never Raman', not eqpt['Edfa'][by[f'booster {u}{v}'].params.type_variety].raman)


def h_multiband_preselect(ctx):
    """preselect_multiband_amps on an untyped two-band amplifier: a library with a quiet group (gain_flatmax 20 dB) and a large
    one (gain_flatmax 30 dB); symbolic loss of the preceding span (the same in both bands): the quiet group stays eligible
    whenever it can deliver the gain within the extended-gain allowance and the power"""
    import json as _json
    from pathlib import Path
    from gnpy.core import elements as el_mod
    from gnpy.core.parameters import EdfaParams
    from gnpy.core.network import preselect_multiband_amps
    from gnpy.tools.json_io import _equipment_from_json, DEFAULT_EXTRA_CONFIG
    C_BAND, L_BAND = {'f_min': 191.25e12, 'f_max': 196.15e12}, {'f_min': 186.55e12, 'f_max': 190.05e12}
    data = _json.loads((Path(common.EXAMPLE) / 'eqpt_config_multiband.json').read_text())

    def amp(name, band, flatmax, nf0):
        return {'type_variety': name, 'type_def': 'fixed_gain', 'gain_flatmax': flatmax, 'gain_min': 12, 'p_max': 23, 'nf0': nf0,
                'out_voa_auto': False, 'allowed_for_design': False, **band}
    data['Edfa'] = [amp('quiet_C', C_BAND, 20, 5.0), amp('quiet_L', L_BAND, 20, 5.0), amp('large_C', C_BAND, 30, 7.0),
                    amp('large_L', L_BAND, 30, 7.0),
                    {'type_variety': 'mb_quiet', 'type_def': 'multi_band', 'amplifiers': ['quiet_C', 'quiet_L'], 'allowed_for_design': True},
                    {'type_variety': 'mb_large', 'type_def': 'multi_band', 'amplifiers': ['large_C', 'large_L'], 'allowed_for_design': True}]
    eqpt = _equipment_from_json(data, DEFAULT_EXTRA_CONFIG)
    ext = eqpt['Span']['default'].target_extended_gain
    fib = {'uid': 'fiber', 'type': 'Fiber', 'type_variety': 'SSMF', 'params': {'length': 80, 'length_units': 'km', 'loss_coef': 0.2,
                                                                              'con_in': 0, 'con_out': 0, 'att_in': 0}}
    g, by = build_elements([{'uid': 'roadm A', 'type': 'Roadm'}, fib, {'uid': 'roadm B', 'type': 'Roadm'}], eqpt,
                           connections=[{'from_node': 'roadm A', 'to_node': 'fiber'}, {'from_node': 'fiber', 'to_node': 'roadm B'}])
    loss = ctx.real('span_loss_db', lo=13, hi=35)
    by['fiber'].design_span_loss = loss
    bands = {'CBAND': {'f_min': 191.3e12, 'f_max': 196.1e12}, 'LBAND': {'f_min': 186.6e12, 'f_max': 190.0e12}}
    amps = {b: el_mod.Edfa(params=EdfaParams.default_values, uid='mbamp') for b in bands}
    ptot = ctx.real('design_total_power_dbm', lo=10, hi=22.9)
    zero = {b: 0 for b in bands}
    got = preselect_multiband_amps('mbamp', amps, by['fiber'], by['roadm B'], True, dict(zero), dict(zero), {b: ptot for b in bands}, g, eqpt,
                                   ['mb_quiet', 'mb_large'], bands, dict(zero), dict(zero))
    info = dict(eligible=sorted(got), extended_gain=ext)
    # required gain = span loss (offset 0 before a ROADM), required power = total design power (< p_max of every model)
    quiet_ok = bool(loss < 20 + ext) and bool(loss + 3 > 12)
    large_ok = bool(loss < 30 + ext)
    if quiet_ok:
        ctx.prove('the quiet group stays eligible while it delivers the gain within the extended-gain allowance',
                  'quiet_C' in got and 'quiet_L' in got, info=info)
    if large_ok:
        ctx.prove('the large group stays eligible while it delivers the gain', 'large_C' in got and 'large_L' in got, info=info)
    ctx.prove('only library models of the permitted groups are proposed', set(got) <= {'quiet_C', 'quiet_L', 'large_C', 'large_L'}, info=info)


def jobs(tier):
    js = []
    for lib in LIBS:
        for ra in ((True, False) if lib == 'with_raman' else (False,)):
            js.append(dict(name=f'H10a:select_edfa:{lib}:raman_allowed={ra}', fn='h_select', params=dict(lib=lib, raman_allowed=ra),
                           budget_s=150 if tier == 'quick' else 600, witness_every=3, cost=500))
    js.append(dict(name='H10d:multiband_preselection', fn='h_multiband_preselect', cost=50))
    js.append(dict(name='H10b:get_node_restrictions', fn='h_restrictions', witness_every=5, cost=100))
    for t in LOSS_TABLES:
        js.append(dict(name=f'H10c:raman_eligibility:{t}', fn='h_raman_eligibility', params=dict(table=t), cost=50))
    return js
