"""C05 — fibre spans apply exactly their loss budget and accumulate CD, PMD, PDL, latency."""
import itertools
import math

import numpy as np

from harness.common import *      # noqa
from harness import common, elems
from symx.core import approx, approx_db, SR
from symx import npshim

setup = common.setup

META = dict(
    level='model_checking',
    explanation='symx: real Fiber.propagate / Fiber.loss / chromatic_dispersion / pmd (Raman off) with symbolic pads, connector '
                'losses, powers and accumulated CD/PMD/latency on concrete fibres (scalar and per-frequency loss, lumped losses); '
                'all orderings of a Fiber-Roadm-Edfa sequence; Raman-on perturbative and numerical solvers with the Raman coupling '
                'stubbed to zero and symbolic lumped losses',
    bounds=['k<=3 channels', 'concrete fibre variants (lengths 5-120 km, 0-2 lumped losses, scalar or tabulated loss)',
            '3-element sequences (6 orders)', 'Raman-on: 2 lumped losses on the solver grid (10, 25 km) or off it (0.02, 12.5 km), z grid 5 km, coupling matrix = 0 (formal '
            'low-power limit), order 1-2', 'latency after split_fiber: fibre length symbolic in (0, 1000] km',
            'first-order Raman: 2 channels 4 THz apart on a 40 km fibre with tabulated loss, symbolic coupling coefficients in [-1e-3, 1e-3] 1/W/m'],
    assumptions=['floats as reals', 'agreement of perturbative and numerical Raman methods, orders 3-4, the iterative co/counter '
                 'algorithm and pump gain are statements about ODE integration accuracy and are outside the technique (see DESIGN)'],
    stubs=['Fiber.cr -> zero matrix in the Raman-on harness', 'scipy interp1d -> exact selection of grid points in the Raman-on harness'],
)


def h_accumulate(ctx, k):
    """CD and latency add, PMD/PDL add in quadrature over Fiber, Roadm, Edfa; the totals do not depend on the order"""
    from gnpy.core.elements import Roadm
    from gnpy.core.info import ReferenceCarrier
    symbolic_ctors(ctx)
    elems.set_sim_params()
    order = ctx.choice('order', list(itertools.permutations(range(3))))
    _, els = build_elements([
        {'uid': 'fiber', 'type': 'Fiber', 'type_variety': 'SSMF',
         'params': {'length': 75.0, 'length_units': 'km', 'loss_coef': 0.2, 'att_in': 0, 'con_in': 0.5, 'con_out': 0.5}},
        {'uid': 'amp', 'type': 'Edfa', 'type_variety': 'std_medium_gain',
         'operational': {'gain_target': 18.0, 'tilt_target': 0, 'out_voa': 1.0}},
    ])
    fiber, amp = els['fiber'], els['amp']
    amp.params.pmd, amp.params.pdl = 1e-12, 0.3
    fiber.ref_pch_in_dbm = 0.0
    roadm = Roadm(uid='roadm', params={'add_drop_osnr': 38, 'pmd': 2e-12, 'pdl': 0.5, 'target_pch_out_db': -20,
                                       'restrictions': {'preamp_variety_list': [], 'booster_variety_list': []},
                                       'roadm-path-impairments': []})
    roadm.set_roadm_paths('w', 'e', 'express')
    roadm.ref_carrier = ReferenceCarrier(baud_rate=32e9, slot_width=50e9)
    roadm.ref_pch_in_dbm = {'w': 0.0}
    cd0 = [ctx.real(f'cd0_{i}', lo=-0.01, hi=0.01) for i in range(k)]
    pmd0 = [ctx.real(f'pmd0_{i}', lo=0, hi=1e-11) for i in range(k)]
    pdl0 = [ctx.real(f'pdl0_{i}', lo=0, hi=5) for i in range(k)]
    lat0 = [ctx.real(f'lat0_{i}', lo=0, hi=0.01) for i in range(k)]
    si = make_si(ctx, k, noisy=False, pmax=2e-3, extra=dict(chromatic_dispersion=arr(cd0), pmd=arr(pmd0), pdl=arr(pdl0),
                                                           latency=arr(lat0)))
    f = list(si.frequency)
    seq = [('fiber', lambda s: (fiber.propagate(s), s)[1]), ('roadm', lambda s: roadm(s, 'e', 'w')), ('amp', amp)]
    for idx in order:
        si = seq[idx][1](si)
    cd_f = [float(fiber.chromatic_dispersion(x)) for x in f]
    pmd_f = float(fiber.params.pmd_coef) * math.sqrt(75e3)
    lat_f = 75e3 * 1.468 / 299792458.0
    for i in range(k):
        ctx.prove(f'cd_total=sum[{i}]', approx(si.chromatic_dispersion[i] - cd0[i], cd_f[i], 1e-12))
        ctx.prove(f'latency_total=sum[{i}]', approx(si.latency[i] - lat0[i], lat_f, 1e-12))
        ctx.prove(f'pmd_total=quadrature[{i}]', approx(si.pmd[i] ** 2 - pmd0[i] ** 2, pmd_f ** 2 + (2e-12) ** 2 + (1e-12) ** 2, 1e-9))
        ctx.prove(f'pdl_total=quadrature[{i}]', approx(si.pdl[i] ** 2 - pdl0[i] ** 2, 0.5 ** 2 + 0.3 ** 2, 1e-9))


class _Interp1dExact:
    """interp1d(z, y, axis=1)(z_final) when every point of z_final is a grid point of z (true for the grids used here)"""
    def __init__(self, x, y, axis=1):
        self.x, self.y = np.asarray(x), y

    def __call__(self, xn):
        idx = []
        for v in np.atleast_1d(xn):
            j = np.where(self.x == v)[0]
            if not len(j):
                raise RuntimeError('interp1d stub: point not on the solver grid')
            idx.append(int(j[0]))
        return self.y[:, idx]


def h_raman_lumped(ctx, method, order, pumps, positions=(10.0, 25.0)):
    """Raman computation ON with the coupling matrix forced to zero (formal low-power limit): the solver must reduce to the
    plain attenuation and apply every lumped loss exactly once, for every value of the lumped losses"""
    import gnpy.core.science_utils as su
    from gnpy.core.parameters import SimParams
    symbolic_ctors(ctx)
    SimParams.set_params({'raman_params': {'flag': True, 'method': method, 'order': order, 'result_spatial_resolution': 10e3,
                                           'solver_spatial_resolution': 5e3},
                          'nli_params': {'method': 'gn_model_analytic'}})
    l1 = ctx.real('lumped1_lin', lo=0.1, hi=1, hi_strict=True)
    l2 = ctx.real('lumped2_lin', lo=0.1, hi=1, hi_strict=True)
    el = {'uid': 'f', 'type': 'Fiber', 'type_variety': 'SSMF',
          'params': {'length': 40.0, 'length_units': 'km', 'loss_coef': 0.2, 'att_in': 0, 'con_in': 0, 'con_out': 0,
                     'lumped_losses': [{'position': positions[0], 'loss': 1.0}, {'position': positions[1], 'loss': 2.0}]}}
    if pumps:
        el['type'] = 'RamanFiber'
        el['operational'] = {'temperature': 283, 'raman_pumps': [{'power': 0.2, 'frequency': 205e12,
                                                                 'propagation_direction': 'counterprop'}]}
    _, els = build_elements([el])
    fiber = els['f']
    fiber.lumped_losses = arr([l1, l2])
    fiber.cr = lambda frequency: np.zeros((np.size(frequency), np.size(frequency)))
    if ctx.mode == 'sym':
        _alpha = fiber.alpha
        fiber.alpha = lambda frequency: np.asarray(_alpha(frequency), dtype=object)    # same values, dtype=object
    k = 2
    si = make_si(ctx, k, noisy=False, pmax=1e-2)
    pre = snap(si)
    orig = su.interp1d
    su.interp1d = _Interp1dExact
    try:
        srs = su.RamanSolver.calculate_stimulated_raman_scattering(si, fiber)
    finally:
        su.interp1d = orig
        elems.set_sim_params()
    alpha = np.atleast_1d(np.asarray(fiber.alpha(np.array(pre['f'])), dtype=float))
    for i in range(k):
        total = srs.loss_profile[i, -1]
        if method == 'perturbative':
            ctx.prove(f'raman_on:{method}:end_loss=exp(-aL)*l1*l2[{i}]', approx(total, l1 * l2 * math.exp(-alpha[i] * 40e3), 1e-9))
        # position dependence: before the first lumped loss none applies, between them only the first
        zf = list(srs.z)
        p10, p20 = zf.index(10e3), zf.index(30e3)
        ratio_mid = srs.loss_profile[i, p20]
        if method == 'perturbative':
            ctx.prove(f'raman_on:{method}:after_first_lumped_only_l1... at 30km both[{i}]',
                      approx(ratio_mid, l1 * l2 * math.exp(-alpha[i] * 30e3), 1e-9))
            ctx.prove(f'raman_on:{method}:power_profile=pin*loss[{i}]', approx(srs.power_profile[i, -1], pre['p'][i] * total, 1e-9))
        else:
            # Euler integration: compare with the same integration without lumped losses (ratio must be l1*l2)
            n_steps = int(40e3 / 5e3)
            base = 1.0
            zs = sorted(set(list(np.arange(0, 40e3, 5e3)) + [40e3, positions[0] * 1e3, positions[1] * 1e3]))
            for a, b in zip(zs[:-1], zs[1:]):
                base *= (1 - alpha[i] * (b - a))
            ctx.prove(f'raman_on:{method}:each_lumped_loss_once[{i}]', approx(total, l1 * l2 * base, 1e-9))


def h_raman_first_order(ctx):
    """Raman ON, perturbative order 1, per-frequency loss (every channel its own attenuation), ARBITRARY coupling coefficients
    (symbolic matrix) and powers: the loss profile at the span end is the first-order solution
    P_i(L) = P_i(0) exp(-a_i L + sum_j C_ij P_j(0) Leff_j(L)), with the effective length of the SOURCE channel j"""
    import gnpy.core.science_utils as su
    from gnpy.core.parameters import SimParams
    symbolic_ctors(ctx)
    SimParams.set_params({'raman_params': {'flag': True, 'method': 'perturbative', 'order': 1, 'result_spatial_resolution': 20e3,
                                           'solver_spatial_resolution': 10e3}, 'nli_params': {'method': 'gn_model_analytic'}})
    el = {'uid': 'f', 'type': 'Fiber', 'type_variety': 'SSMF',
          'params': {'length': 40.0, 'length_units': 'km', 'att_in': 0, 'con_in': 0, 'con_out': 0,
                     'loss_coef': {'value': [0.24, 0.2, 0.19], 'frequency': [191.0e12, 193.5e12, 196.0e12]}}}
    _, els = build_elements([el])
    fiber = els['f']
    k = 2
    freqs = [191.5e12, 195.5e12]
    c01 = ctx.real('coupling_0_from_1', lo=-1e-3, hi=1e-3)
    c10 = ctx.real('coupling_1_from_0', lo=-1e-3, hi=1e-3)
    cmat = np.empty((k, k), dtype=object)
    cmat[0, 0], cmat[1, 1], cmat[0, 1], cmat[1, 0] = 0.0, 0.0, c01, c10
    fiber.cr = lambda frequency: cmat
    if ctx.mode == 'conc':
        cmat = cmat.astype(float)
        fiber.cr = lambda frequency: cmat
    _alpha = fiber.alpha
    alpha = np.atleast_1d(np.asarray(_alpha(np.array(freqs)), dtype=float))
    if ctx.mode == 'sym':
        fiber.alpha = lambda frequency: np.asarray(_alpha(frequency), dtype=object)    # same values, dtype=object
    si = make_si(ctx, k, freqs=freqs, spacing=4e12, slot=50e9, noisy=False, pmax=1e-2)
    pre = snap(si)
    orig = su.interp1d
    su.interp1d = _Interp1dExact
    try:
        srs = su.RamanSolver.calculate_stimulated_raman_scattering(si, fiber)
    finally:
        su.interp1d = orig
        elems.set_sim_params()
    L = 40e3
    leff = [(1 - math.exp(-alpha[j] * L)) / alpha[j] for j in range(k)]
    for i in range(k):
        j = 1 - i
        arg = -alpha[i] * L + cmat[i, j] * pre['p'][j] * leff[j]
        want = arg.exp() if is_symbolic(arg) else math.exp(arg)
        ctx.prove(f'first-order loss profile uses the effective length of the source channel [{i}]',
                  approx(srs.loss_profile[i, -1], want, 1e-9), info=dict(channel=i))


def jobs(tier):
    ks = [1, 2, 3] if tier == 'quick' else [1, 2, 3, 4]
    P = ('C05',)
    js = []
    for k in ks:
        for var in elems.FIBER_VARIANTS:
            js.append(dict(name=f'H5a:fiber:{var}:k{k}', module='harness.elems', fn='h_fiber', params=dict(variant=var, k=k, props=P),
                           cost=3 ** k))
    for k in ([2] if tier == 'quick' else [2, 3]):
        js.append(dict(name=f'H5b:accumulate_all_orders:k{k}', fn='h_accumulate', params=dict(k=k), cost=30))
    for k in ks[1:]:
        js.append(dict(name=f'H5b:roadm_pmd_pdl:k{k}', module='harness.elems', fn='h_roadm',
                       params=dict(policy='pch', override='none', k=k, props=('C05',)), cost=2 ** k))
    for method, order in (('perturbative', 1), ('perturbative', 2), ('numerical', 1)):
        js.append(dict(name=f'H5c:raman_on_zero_coupling:{method}:order{order}', fn='h_raman_lumped',
                       params=dict(method=method, order=order, pumps=False), cost=20))
        # lumped losses off the solver grid (one inside the first solver step): non-uniform integration steps
        js.append(dict(name=f'H5c:raman_on_zero_coupling:{method}:order{order}:offgrid_lumped', fn='h_raman_lumped',
                       params=dict(method=method, order=order, pumps=False, positions=(0.02, 12.5)), cost=20))
    js.append(dict(name='H5c:raman_span_input_pad_counts', module='harness.elems', fn='h_raman_fiber_pad', cost=40))
    js.append(dict(name='H5c:raman_on_first_order_per_frequency_loss', fn='h_raman_first_order', cost=30, opts=dict(exp_monotone=True)))
    # accumulated CD / PMD / PDL / latency stay attached to their carrier when a spectrum is (re)built from unsorted pieces
    for via in ('init', 'add'):
        js.append(dict(name=f'H5e:accumulated_values_follow_carrier:{via}:k3', module='harness.c01', fn='h_construct_interleaved',
                       params=dict(k=3, via=via), cost=10))
    # latency adds linearly over the spans auto-design creates from a long fibre (sym length; shared with C08)
    js.append(dict(name='H5d:latency_after_split', module='harness.c08', fn='h_split', params=dict(max_km=150, padding=10), cost=30,
                   witness_every=1))
    return js
