"""C04 — amplifier applies its set gain, the quantum-limited ASE, and never exceeds p_max; NF follows the model."""
import math

from harness.common import *      # noqa
from harness import common, elems
from symx.core import approx, approx_db

setup = common.setup

META = dict(
    level='model_checking',
    explanation='symx: real Edfa.__call__/propagate/interpol_params/_calc_nf/_nf/noise_profile/_gain_profile on amplifiers built by '
                'network_from_json from every type_def of the shipped library, with symbolic set gain, VOAs, p_max, input powers and '
                'splits; real estimate_nf_model with concrete and symbolic datasheets',
    bounds=['k<=3 in-band channels (+1 out-of-band), flat profile (tilt_target 0, no ripple)',
            'symbolic lower band edge within [f0 - 1.5 slot, f0 + 0.5 slot] of the first of 2 carriers; history: one earlier comb of equal '
            'channel count, shifted by 1.2375 THz, weak enough not to saturate', 'gain in [-5, 50] dB, VOAs in [0, 20] dB, '
            'p_max in [0, 30] dBm, input power per channel <= 100 mW', 'NF datasheets: all variable_gain entries of the library '
            '(concrete) and symbolic datasheets within gain_min in [5,25], range 5-15 dB, nf in [4,12] dB'],
    assumptions=['floats modelled as reals', 'gain profile under tilt/ripple (secant approximation) is outside the claim',
                 'math.isclose replaced by its real-number definition'],
    stubs=['math.isclose -> real definition (symx.npshim.safe_isclose)'],
)


def L(x_db):
    return 10 ** (x_db / 10)


def _amp(variety, eqpt_name='eqpt_config.json'):
    _, els = build_elements([{'uid': 'amp', 'type': 'Edfa', 'type_variety': variety,
                              'operational': {'gain_target': 20.0, 'tilt_target': 0, 'out_voa': 0.0}}],
                            equipment(eqpt_name))
    return els['amp']


def h_nf_model_library(ctx, variety):
    """NF of a min/max-NF (variable_gain) amplifier from the shipped library as a function of a symbolic gain"""
    symbolic_ctors(ctx)
    amp = _amp(variety)
    p = amp.params
    gmin, gfm = p.gain_min, p.gain_flatmax
    nf_min, nf_max = p.nf_model.orig_nf_min, p.nf_model.orig_nf_max

    def nf_at(g_db):
        nf, pad = amp._nf(p.type_def, p.nf_model, p.nf_fit_coeff, gmin, gfm, g_db)
        return nf, pad
    # the code's own acceptance for the fitted model is 0.01 dB
    nf, pad = nf_at(gfm)
    ctx.prove('nf(gain_flatmax)=nf_min', abs(nf - nf_min) <= 0.01 + 1e-9 and pad == 0)
    nf, pad = nf_at(gmin)
    ctx.prove('nf(gain_min)=nf_max', abs(nf - nf_max) <= 0.01 + 1e-9 and pad == 0)
    nf_at_min = nf
    # symbolic gain inside the range: between nf_min and nf_max, non-increasing
    g1_lin = ctx.real('g1_lin', lo=10 ** (gmin / 10) * (1 + 1e-9), hi=10 ** (gfm / 10) * (1 - 1e-9))
    g2_lin = ctx.real('g2_lin', lo=10 ** (gmin / 10) * (1 + 1e-9), hi=10 ** (gfm / 10) * (1 - 1e-9))
    ctx.assume(le(g1_lin, g2_lin) if ctx.mode == 'conc' else g1_lin <= g2_lin)
    g1, g2 = 10 * elems.log10(ctx, g1_lin), 10 * elems.log10(ctx, g2_lin)
    n1, pad1 = nf_at(g1)
    n2, pad2 = nf_at(g2)
    ctx.prove('nf_non_increasing_with_gain', le(L(n2), L(n1) * (1 + 1e-12)))
    ctx.prove('nf_within_datasheet_range', And(le(L(n1), L(nf_max + 0.01)), ge(L(n1), L(nf_min - 0.01))))
    ctx.prove('no_padding_inside_range', eq(pad1, 0) if is_symbolic(pad1) else pad1 == 0)
    # below minimum gain: dB-for-dB
    d_lin = ctx.real('below_lin', lo=1, hi=1000)
    gl = gmin - 10 * elems.log10(ctx, d_lin)
    nl, padl = nf_at(gl)
    ctx.prove('below_gain_min:nf_grows_db_for_db', approx(L(nl), L(nf_at_min) * d_lin, 1e-9))
    ctx.prove('below_gain_min:padding=gain_min-gain', approx(L(padl), d_lin, 1e-9))


def h_openroadm_nf(ctx, variety):
    """OpenROADM noise masks (incremental OSNR as a function of the input power per channel referred to a 50 GHz slot):
    real Edfa._calc_nf / _nf after a comb on a 50 / 75 / 100 GHz grid set the amplifier up, with a SYMBOLIC total input power:
    NF = P50 - OSNR_mask(P50) + 58 where P50 = power per channel x 50 GHz / spacing (equal spectral density, equal NF)"""
    import math
    from gnpy.core.info import create_arbitrary_spectral_information
    amp = _amp(variety)
    spacing = ctx.choice('grid spacing (GHz)', [50, 75, 100]) * 1e9
    k = 3
    si = create_arbitrary_spectral_information(frequency=[193.0e12 + i * spacing for i in range(k)], pch=1e-5, baud_rate=32e9,
                                               tx_osnr=40.0, tx_power=1e-5, slot_width=spacing)
    amp.effective_gain = 15.0
    amp.interpol_params(si)                       # sets channel count, grid and interpolated ripples from the comb
    ptot = ctx.real('total_input_power_dbm', lo=-40, hi=15)
    amp.pin_db = ptot
    nf = amp._calc_nf()
    p50 = ptot - 10 * math.log10(k) + 10 * math.log10(50e9 / spacing)
    if amp.params.type_def == 'openroadm':
        osnr = 0
        for c in amp.params.nf_model.nf_coef:
            osnr = osnr * p50 + c
    else:
        lin = (4 * p50 + 275) / 7
        # the two sides of the mask's break point (P50 = -11 dBm) are explored separately; the point itself is excluded by 1e-3 dB
        side = ctx.choice('side of the break point', ['below', 'above'])
        if side == 'below':
            ctx.assume(le(p50, -11.001) if ctx.mode == 'sym' else p50 <= -11.001)
            osnr = lin
        else:
            ctx.assume(ge(p50, -10.999) if ctx.mode == 'sym' else p50 >= -10.999)
            osnr = 33
    want = p50 - osnr + 58
    for j in range(k):
        ctx.prove(f'NF follows the OpenROADM mask at the power per 50 GHz [{j}]', And(le(nf[j] - want, 1e-9), le(want - nf[j], 1e-9)),
                  info=dict(variety=variety, spacing_ghz=spacing * 1e-9))


def h_nf_model_symbolic(ctx):
    """estimate_nf_model on a symbolic datasheet followed by Edfa._nf: NF(gain_flatmax)=nf_min, NF(gain_min)=nf_max within the
    code's own 0.01 dB acceptance, and non-increasing in between"""
    from gnpy.core.science_utils import estimate_nf_model
    from gnpy.core.exceptions import EquipmentConfigError
    from gnpy.tools.json_io import Model_vg
    symbolic_ctors(ctx)
    amp = _amp('std_medium_gain')
    gmin_lin = ctx.real('gain_min_lin', lo=10 ** 0.5, hi=10 ** 2.5)
    rng_lin = ctx.real('gain_range_lin', lo=10 ** 0.5, hi=10 ** 1.5)
    nfmin_lin = ctx.real('nf_min_lin', lo=10 ** 0.4, hi=10 ** 1.2)
    dnf_lin = ctx.real('nf_spread_lin', lo=1.01, hi=10)
    gmin = 10 * elems.log10(ctx, gmin_lin)
    gmax = gmin + 10 * elems.log10(ctx, rng_lin)
    nf_min = 10 * elems.log10(ctx, nfmin_lin)
    nf_max = nf_min + 10 * elems.log10(ctx, dnf_lin)
    try:
        nf1, nf2, delta_p = estimate_nf_model('sym', gmin, gmax, nf_min, nf_max)
    except EquipmentConfigError:
        ctx.prove('datasheet_rejected_with_config_error', True)
        return
    model = Model_vg(nf1, nf2, delta_p, nf_min, nf_max)
    tol = 10 ** 0.001          # 0.01 dB
    n_hi, pad = amp._nf('variable_gain', model, None, gmin, gmax, gmax)
    ctx.prove('sym:nf(gain_flatmax)=nf_min', And(le(L(n_hi), nfmin_lin * tol * (1 + 1e-9)), ge(L(n_hi) * tol * (1 + 1e-9), nfmin_lin)))
    n_lo, pad = amp._nf('variable_gain', model, None, gmin, gmax, gmin)
    ctx.prove('sym:nf(gain_min)=nf_max', And(le(L(n_lo), nfmin_lin * dnf_lin * tol * (1 + 1e-9)),
                                            ge(L(n_lo) * tol * (1 + 1e-9), nfmin_lin * dnf_lin)))
    # two gains in the range: g = gmin + t*range is not log-linear; use products instead: G = Gmin * R1, R1 <= R2 <= range
    r1 = ctx.real('r1', lo=1)
    r2 = ctx.real('r2', lo=1)
    ctx.assume(And(r1 <= r2, r2 <= rng_lin) if ctx.mode == 'sym' else (r1 <= r2 and r2 <= rng_lin))
    na, _ = amp._nf('variable_gain', model, None, gmin, gmax, gmin + 10 * elems.log10(ctx, r1))
    nb, _ = amp._nf('variable_gain', model, None, gmin, gmax, gmin + 10 * elems.log10(ctx, r2))
    ctx.prove('sym:nf_non_increasing_with_gain', le(L(nb), L(na) * (1 + 1e-12)))


def h_dual_stage(ctx, variety):
    """dual-stage NF is the Friis composition of the two stages at the split gains"""
    symbolic_ctors(ctx)
    amp = _amp(variety)
    p = amp.params
    g_lin = ctx.real('gain_lin', lo=10 ** (p.gain_min / 10), hi=10 ** (p.gain_flatmax / 10))
    amp.effective_gain = 10 * elems.log10(ctx, g_lin)
    amp.interpol_nf_ripple = 0.0
    amp.pin_db, amp.nch, amp.slot_width = 0.0, 2, 50e9
    nf = amp._calc_nf(avg=True)
    g1 = p.preamp_gain_flatmax
    nf1, _ = amp._nf(p.preamp_type_def, p.preamp_nf_model, p.preamp_nf_fit_coeff, p.preamp_gain_min, p.preamp_gain_flatmax, g1)
    nf2, _ = amp._nf(p.booster_type_def, p.booster_nf_model, p.booster_nf_fit_coeff, p.booster_gain_min,
                     p.booster_gain_flatmax, amp.effective_gain - g1)
    ctx.prove('dual_stage:friis', approx(L(nf), L(nf1) + L(nf2) / L(g1), 1e-9))
    lib = equipment()['Edfa']
    ctx.prove('dual_stage:maximum output power is that of the output (booster) stage',
              p.p_max == lib[lib[variety].booster_type_variety].p_max,
              info=dict(variety=variety, p_max=p.p_max, preamp=lib[lib[variety].preamp_type_variety].p_max, booster=lib[lib[variety].booster_type_variety].p_max))


def jobs(tier):
    ks = [2, 3] if tier == 'quick' else [2, 3, 4]
    P = ('C04',)
    js = []
    for var in elems.EDFA_QUICK:
        for k in ks:
            js.append(dict(name=f'H4a:edfa:{var}:k{k}', module='harness.elems', fn='h_edfa',
                           params=dict(variety=var, k=k, props=P), cost=4 ** k))
        js.append(dict(name=f'H4a:edfa:{var}:k2:sym_pmax+oob+in_voa', module='harness.elems', fn='h_edfa',
                       params=dict(variety=var, k=2, props=P, sym_pmax=True, oob=True, sym_invoa=True), cost=40))
    for var in ('std_medium_gain', 'high_detail_model_example', 'std_fixed_gain'):
        js.append(dict(name=f'H4a:edfa:{var}:k2:symbolic_band_edge', module='harness.elems', fn='h_edfa',
                       params=dict(variety=var, k=2, props=P, sym_band=True), cost=30))
        js.append(dict(name=f'H4a:edfa:{var}:k2:after_another_comb', module='harness.elems', fn='h_edfa',
                       params=dict(variety=var, k=2, props=P, history=True), cost=30))
    for var in ('std_high_gain', 'std_medium_gain', 'std_low_gain', 'high_power', 'operator_model_example'):
        js.append(dict(name=f'H4b:nf_model:{var}', fn='h_nf_model_library', params=dict(variety=var)))
    for var in ('openroadm_ila_low_noise', 'openroadm_ila_standard', 'openroadm_mw_mw_preamp'):
        js.append(dict(name=f'H4b:openroadm_noise_mask:{var}', fn='h_openroadm_nf', params=dict(variety=var), cost=20))
    for var in ('medium+low_gain', 'medium+high_power', 'hybrid_4pumps_lowgain'):
        js.append(dict(name=f'H4b:dual_stage:{var}', fn='h_dual_stage', params=dict(variety=var)))
    if tier != 'quick':
        js.append(dict(name='H4b:nf_model:symbolic_datasheet', fn='h_nf_model_symbolic', budget_s=900,
                       opts=dict(query_timeout_ms=20000), cost=500))
    return js
