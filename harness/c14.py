"""C14 — spectrum assignment never double-books a slot and honours what the user fixed.

Inductive step over histories: arbitrary pre-state (every cell of every OMS bitmap is a symbolic value in
{free, occupied, unusable}), ONE call of the real pth_assign_spectrum with one request.  Slot numbers are used as list
indices by the code, so they are enumerated path by path (request shapes by ctx.choice); the solver generalises over the
cell contents: each explored path is one branch of the algorithm's decision tree, valid for all cell valuations that
reach it."""
import itertools

import z3

from harness import common
from symx import core
from symx.core import SB, _sb, Abort

setup = common.setup

META = dict(
    level='model_checking',
    explanation='symx: real pth_assign_spectrum / compute_n_m / aggregate_oms_bitmap / bitmap_sum / spectrum_selection / '
                'determine_slot_numbers / OMS.assign_spectrum / order_slots / restore_order executed on bitmaps whose cells are '
                'symbolic; one request from an arbitrary spectrum state (inductive step over request histories)',
    bounds=['quick: one OMS on the path: bitmap length 9 (7 with a bystander OMS), three-valued cells, N in {None,-2,0,1, last usable slot}; two OMS on the path '
            '(forward+reverse, or both forward) plus a bystander: length 5, two-valued cells, N in {None,0,-1}; M in {None,1,2}; 1 or 2 entries; '
            '1 or 2 channels of 12.5 GHz; guard band 1 slot; first_fit. thorough: lengths 11 / 9 / 7',
            'paths: forward only / forward+reverse on distinct OMS / two OMS on the forward path; one bystander OMS'],
    assumptions=['all OMS bitmaps cover the same slot range (established by align_grids, checked under C15)',
                 'request fields other than N, M, path_bandwidth, spacing, bit_rate are irrelevant to spectrum assignment',
                 'path elements are stub objects carrying only oms_id (build_path_oms_id_list reads nothing else)'],
    stubs=['path elements: objects with an oms_id attribute'],
)

FREE_C, OCC_C, UNU_C = 1, 0, 2


def _codes():
    from gnpy.topology.spectrum_assignment import BitmapValue
    return {BitmapValue.FREE: FREE_C, BitmapValue.OCCUPIED: OCC_C, BitmapValue.UNUSABLE: UNU_C}


class Cell:
    """symbolic bitmap cell: integer term in {0,1,2}; compares with BitmapValue members (and other cells)"""
    __slots__ = ('v',)

    def __init__(self, v):
        self.v = v

    def __eq__(self, o):
        if isinstance(o, Cell):
            return _sb(self.v == o.v)
        code = _codes().get(o)
        if code is None:
            return False
        return _sb(self.v == code)

    def __ne__(self, o):
        r = self.__eq__(o)
        return _sb(z3.Not(r.e)) if isinstance(r, SB) else (not r)

    __hash__ = None

    def __deepcopy__(self, memo):
        return self


class El:
    def __init__(self, oms_id):
        self.oms_id = oms_id
        self.uid = f'el{oms_id}'


def _mk_oms(ctx, i, nmin, nmax, three_valued):
    from gnpy.topology.spectrum_assignment import OMS, BitmapValue, nvalue_to_frequency, DEFAULT_GRID as G
    inv = {v: k for k, v in _codes().items()}
    cells, pre = [], []
    for j in range(nmax - nmin + 1):
        v = ctx.int(f'oms{i}_slot{nmin + j}', 0, 2 if three_valued else 1)
        if ctx.mode == 'conc':
            cells.append(inv[v])
            pre.append(v)
        else:
            cells.append(Cell(v.t))
            pre.append(v.t)
    o = OMS(oms_id=i, el_id_list=[], el_list=[])
    o.update_spectrum(nvalue_to_frequency(nmin), nvalue_to_frequency(nmax), guardband=G, grid=G, existing_spectrum=cells)
    sb = o.spectrum_bitmap
    if (sb.n_min, sb.n_max, sb.freq_index_min, sb.freq_index_max) != (nmin, nmax, nmin + 1, nmax - 1):
        raise RuntimeError('harness geometry not as intended')
    return o, pre


def _code_of(ctx, cell):
    """integer code (python int or z3 term) of a post-state cell"""
    if isinstance(cell, Cell):
        return cell.v
    return _codes()[cell]


def _ceq(a, b):
    """equality of two cell codes as python bool / SB"""
    if isinstance(a, int) and isinstance(b, int):
        return a == b
    return _sb(a == b)


def _cand(*cs):
    return core.And(*cs)


def h_assign(ctx, layout, nmin, nmax, three_valued, n_first, optsN=(None, -2, 0, 1), optsM=(None, 1, 2)):
    from gnpy.topology.request import PathRequest
    from gnpy.topology.spectrum_assignment import pth_assign_spectrum, mvalue_to_slots
    noms = {'single': 1, 'single+bystander': 2, 'fwd+rev': 3, 'two_on_path': 3}[layout]
    oms_list, pre = [], []
    for i in range(noms):
        o, p = _mk_oms(ctx, i, nmin, nmax, three_valued)
        oms_list.append(o)
        pre.append(p)
    # ---- request shape
    optsN, optsM = list(optsN), list(optsM)
    nent = ctx.choice('entries', [1, 2])
    N = [n_first] + ([ctx.choice('N2', optsN)] if nent == 2 else [])
    M = [ctx.choice(f'M{i + 1}', optsM) for i in range(nent)]
    nch = ctx.choice('channels', [1, 2])
    rq = PathRequest(request_id='r', spacing=12.5e9, bit_rate=100e9, path_bandwidth=100e9 * nch,
                     effective_freq_slot=[{'N': n, 'M': m} for n, m in zip(N, M)])
    reqN, reqM = list(N), list(M)
    if layout in ('single', 'single+bystander'):
        pth, rpth = [El(0)], []
    elif layout == 'fwd+rev':
        pth, rpth = [El(0)], [El(1)]
    else:
        pth, rpth = [El(1), El(0)], []
    on_path = sorted({e.oms_id for e in pth + rpth})
    L = nmax - nmin + 1
    per_channel_m, required_m = 1, nch
    try:
        pth_assign_spectrum([pth], [rq], oms_list, [rpth])
        exc = None
    except Exception as e:       # noqa
        exc = e
    ctx.prove('no_exception: request is served or blocked', exc is None, info=dict(N=reqN, M=reqM, nch=nch, exc=repr(exc)))
    if exc is not None:
        return
    post = [[_code_of(ctx, c) for c in o.spectrum_bitmap.bitmap] for o in oms_list]
    info = dict(N=reqN, M=reqM, nch=nch, layout=layout, got_N=rq.N, got_M=rq.M, blocking=getattr(rq, 'blocking_reason', None))
    for i in range(noms):
        ctx.prove(f'oms{i}: bitmap length kept', len(oms_list[i].spectrum_bitmap.bitmap) == L, info=info)
    if hasattr(rq, 'blocking_reason'):
        ctx.prove('blocked: N and M cleared', rq.N is None and rq.M is None, info=info)
        ctx.prove('blocked: documented reason', rq.blocking_reason in ('NO_SPECTRUM', 'NOT_ENOUGH_RESERVED_SPECTRUM'), info=info)
        for i in range(noms):
            ctx.prove(f'blocked: oms{i} spectrum state unchanged',
                      _cand(*[_ceq(post[i][j], pre[i][j]) for j in range(L)]), info=info)
        return
    # ---- accepted
    gotN, gotM = rq.N, rq.M
    ok_shape = (isinstance(gotN, list) and isinstance(gotM, list) and len(gotN) == len(gotM) and len(gotN) >= 1 and
                all(isinstance(x, int) for x in gotN) and all(isinstance(x, int) and x > 0 for x in gotM))
    ctx.prove('accepted: N and M are equally long lists of integers, M positive', ok_shape, info=info)
    if not ok_shape:
        return
    # every returned pair is one of the request entries (order kept), fixed values used as given,
    # every entry whose M the user fixed is present
    def match(i, n, m):
        return (reqN[i] is None or reqN[i] == n) and (reqM[i] is None or reqM[i] == m)
    found = False
    for pos in itertools.combinations(range(len(reqN)), len(gotN)):
        if all(match(i, gotN[k], gotM[k]) for k, i in enumerate(pos)):
            missing = [i for i in range(len(reqN)) if i not in pos]
            if all(reqM[i] is None for i in missing):
                found = True
    ctx.prove('accepted: fixed N/M used as given (entries with a fixed M all present)', found and len(gotN) <= len(reqN), info=info)
    occ = {}
    disjoint = True
    for n, m in zip(gotN, gotM):
        a, b = mvalue_to_slots(n, m)
        for s in range(a, b + 1):
            if s in occ:
                disjoint = False
            occ[s] = True
    ctx.prove('accepted: slot ranges pairwise disjoint', disjoint, info=info)
    ctx.prove('accepted: enough slots for the requested bandwidth', sum(gotM) >= required_m, info=info)
    ctx.prove('accepted: channels fit in the slots', sum(m // per_channel_m for m in gotM) >= nch, info=info)
    inside = all(mvalue_to_slots(n, m)[0] >= nmin + 1 and mvalue_to_slots(n, m)[1] <= nmax - 1 for n, m in zip(gotN, gotM))
    ctx.prove('accepted: inside band and guard bands', inside, info=info)
    if not inside:
        return
    for i in range(noms):
        for j, s in enumerate(range(nmin, nmax + 1)):
            if i in on_path and s in occ:
                ctx.prove(f'accepted: oms{i} slot was free before', _ceq(pre[i][j], FREE_C), info=dict(info, slot=s))
                ctx.prove(f'accepted: oms{i} slot occupied after', _ceq(post[i][j], OCC_C), info=dict(info, slot=s))
            else:
                ctx.prove(f'accepted: oms{i} other slots untouched', _ceq(post[i][j], pre[i][j]), info=dict(info, slot=s))
    # first fit: a single open entry takes the lowest position that is free on every OMS of the path
    if len(reqN) == 1 and reqN[0] is None and len(gotN) == 1:
        m = gotM[0]
        start = gotN[0] - m
        for s in range(nmin + 1, start):
            # a lower start s would need slots s..s+2m-1 free on all path OMS: at least one of them was not free
            if s + 2 * m - 1 > nmax - 1:
                continue
            all_free = _cand(*[_ceq(pre[i][s - nmin + d], FREE_C) for i in on_path for d in range(2 * m)])
            ctx.prove('accepted: first fit takes the lowest feasible position', core.Not(all_free), info=dict(info, lower_start=s))


def h_bitmap_sum(ctx, n):
    """bitmap_sum on symbolic three-valued cells: a slot of the sum is FREE iff it is FREE in both operands"""
    from gnpy.topology.spectrum_assignment import bitmap_sum, BitmapValue
    inv = {v: k for k, v in _codes().items()}
    a, b, av, bv = [], [], [], []
    for j in range(n):
        x = ctx.int(f'a{j}', 0, 2)
        y = ctx.int(f'b{j}', 0, 2)
        if ctx.mode == 'conc':
            a.append(inv[x]), b.append(inv[y]), av.append(x), bv.append(y)
        else:
            a.append(Cell(x.t)), b.append(Cell(y.t)), av.append(x.t), bv.append(y.t)
    res = bitmap_sum(a, b)
    ctx.prove('bitmap_sum: length', len(res) == n)
    for j in range(n):
        both_free = _cand(_ceq(av[j], FREE_C), _ceq(bv[j], FREE_C))
        if res[j] is BitmapValue.FREE:
            ctx.prove(f'bitmap_sum: free only if free in both [{j}]', both_free)
        else:
            ctx.prove(f'bitmap_sum: result is occupied otherwise [{j}]', res[j] is BitmapValue.OCCUPIED)
            ctx.prove(f'bitmap_sum: occupied only if not free in both [{j}]', core.Not(both_free))


def jobs(tier):
    js = [dict(name='H14:bitmap_sum:3cells', fn='h_bitmap_sum', params=dict(n=3))]
    full = dict(optsN=(None, -2, 0, 1), optsM=(None, 1, 2))
    small = dict(optsN=(None, 0), optsM=(None, 1, 2))
    if tier == 'quick':
        cfgs = [('single', -4, 4, True, full, (None, -2, 0, 1, 3)), ('single+bystander', -3, 3, True, full, (None, -2, 0, 1, 2)),
                ('fwd+rev', -2, 2, False, small, (None, 0, -1)), ('two_on_path', -2, 2, False, small, (None, 0, -1))]
    else:
        cfgs = [('single', -5, 5, True, full, (None, -2, 0, 1, 4, -4)), ('single+bystander', -4, 4, True, full, (None, -2, 0, 1, 3, -3)),
                ('fwd+rev', -3, 3, False, full, (None, -2, 0, 1)), ('two_on_path', -3, 3, False, full, (None, -2, 0, 1)),
                ('fwd+rev', -2, 2, True, small, (None, 0, -1))]
    for layout, a, b, tv, opts, n1s in cfgs:
        for n1 in n1s:
            js.append(dict(name=f'H14:assign:{layout}:n[{a},{b}]:{"3v" if tv else "2v"}:N1={n1}', fn='h_assign',
                           params=dict(layout=layout, nmin=a, nmax=b, three_valued=tv, n_first=n1, **opts),
                           budget_s=200 if tier == 'quick' else 600, witness_every=7,
                           cost=(3 if tv else 2) ** (b - a) * (1 if layout.startswith('single') else 50)))
    return js
