"""C17 — designing is repeatable: export, reload and redesign changes nothing."""
import json
from copy import deepcopy

import networkx as nx

from harness.common import *      # noqa
from harness import common
from harness.c08 import _topology
from symx.core import SR, SI, approx

setup = common.setup

META = dict(
    level='model_checking',
    explanation='symx: element-level export -> reload -> export with symbolic settings (Edfa gain/offset/VOAs/tilt, Fiber length/loss/'
                'connectors/pad, Fused loss, Roadm targets): the export rounding is modelled exactly and z3 decides that the second export '
                'equals the first and that reloaded values are within the export rounding; line-level design -> export -> reload -> '
                'redesign with symbolic lengths, losses, user values and library defaults (padding, EOL, connector losses); pipeline-level '
                'design/export/reload/redesign and design-twice on the shape grammar of C08 and on shipped example networks; SimParams '
                'snapshot before/after auto-design of a network containing a RamanFiber for several user settings',
    bounds=['symbolic settings within physical ranges; 3 line layouts; 120 shapes x automatic output VOA on/off; sim-params: 4 user settings',
            'RamanFiber: 2 pumps with symbolic powers, symbolic output connector loss in [0, 3] dB and temperature',
            'pipeline grammar also in gain mode; Roadm export: node policy in {pch, psd, psw}, one per-degree target of each kind, symbolic values'],
    assumptions=['floats as reals; "same to the export\'s rounding" = within 5e-7 for gains (6 decimals), 5e-6 for tilt (5 decimals), '
                 '5e-7 km for lengths, 5e-7 dB/km for loss coefficients', 'JSON file I/O not involved (dicts passed in memory)'],
    stubs=[],
)


def _within(a, b, tol):
    d = a - b
    return And(le(d, tol), le(-d, tol))


# ------------------------------------------------------------------------------------------ H17b element level

def h_edfa_export(ctx, none_fields):
    from gnpy.core.elements import Edfa
    eqpt = equipment()
    gain = None if 'gain' in none_fields else ctx.real('effective_gain', lo=-5, hi=45)
    dp = None if 'delta_p' in none_fields else ctx.real('delta_p', lo=-6, hi=6)
    voa = ctx.real('out_voa', lo=0, hi=5)
    tilt = None if 'tilt' in none_fields else ctx.real('tilt_target', lo=-3, hi=3)
    _, by = build_elements([{'uid': 'amp', 'type': 'Edfa', 'type_variety': 'std_medium_gain',
                             'operational': {'gain_target': gain, 'delta_p': dp, 'tilt_target': tilt, 'out_voa': voa}}], eqpt)
    amp = by['amp']
    j1 = amp.to_json
    op1 = j1['operational']
    if gain is not None:
        ctx.prove('exported gain is the effective gain to 6 decimals (0 dB included)',
                  op1['gain_target'] is not None and bool(_within(op1['gain_target'], gain, 5.000001e-7)), info=dict(exported=str(op1['gain_target'])))
    else:
        ctx.prove('no gain exported when none is set', op1['gain_target'] is None)
    if op1['gain_target'] is None and gain is not None:
        return
    _, by2 = build_elements([deepcopy(j1)], eqpt)
    j2 = by2['amp'].to_json
    for k in ('gain_target', 'delta_p', 'tilt_target', 'out_voa', 'in_voa'):
        a, b = j1['operational'][k], j2['operational'][k]
        same = (a is None and b is None) or (a is not None and b is not None and bool(eq(a, b)))
        ctx.prove(f'second export equals the first: {k}', same, info=dict(first=str(a), second=str(b)))
    ctx.prove('type and variety preserved', j2['type_variety'] == j1['type_variety'] and j2['type'] == 'Edfa' and j2['uid'] == 'amp')


def h_fiber_export(ctx):
    eqpt = equipment()
    km = ctx.real('length_km', lo=0.001, hi=500)
    lc = ctx.real('loss_coef_db_per_km', lo=0.1, hi=0.5)
    att, ci, co = ctx.real('att_in', lo=0, hi=10), ctx.real('con_in', lo=0, hi=3), ctx.real('con_out', lo=0, hi=3)
    _, by = build_elements([{'uid': 'f', 'type': 'Fiber', 'type_variety': 'SSMF',
                             'params': {'length': km, 'length_units': 'km', 'loss_coef': lc, 'att_in': att, 'con_in': ci, 'con_out': co}}], eqpt)
    j1 = by['f'].to_json
    p1 = j1['params']
    ctx.prove('exported length within rounding', _within(p1['length'], km, 5.000001e-7) if p1['length_units'] == 'km' else False)
    ctx.prove('exported loss coefficient within rounding', _within(p1['loss_coef'], lc, 5.000001e-7))
    ctx.prove('pads and connectors exported as they are', And(eq(p1['att_in'], att), eq(p1['con_in'], ci), eq(p1['con_out'], co)))
    _, by2 = build_elements([deepcopy(j1)], eqpt)
    p2 = by2['f'].to_json['params']
    for k in ('length', 'loss_coef', 'att_in', 'con_in', 'con_out'):
        ctx.prove(f'second export equals the first: {k}', eq(p1[k], p2[k]))


def h_fiber_export_special(ctx, shape):
    """Fiber export -> reload for a fibre with a per-frequency loss coefficient / with lumped losses (value-forked length): the
    export can be loaded again and the reloaded fibre has the same loss over the spectrum / the same lumped losses"""
    import numpy as np
    eqpt = equipment()
    km = ctx.choice('length_km', [20.0, 80.0, 123.456789])      # concrete: the reload goes through the JSON-level converter
    params = {'length': km, 'length_units': 'km', 'att_in': 0, 'con_in': 0.5, 'con_out': 0.5}
    if shape == 'per_frequency_loss':
        params['loss_coef'] = {'value': [0.21, 0.2, 0.22], 'frequency': [191.0e12, 193.0e12, 196.5e12]}
    else:
        params['loss_coef'] = 0.2
        params['lumped_losses'] = [{'position': 10, 'loss': 1.5}]
    _, by = build_elements([{'uid': 'f', 'type': 'Fiber', 'type_variety': 'SSMF', 'params': params}], eqpt)
    j1 = by['f'].to_json
    try:
        # reload the way load_network does: the saved document goes through yang_to_legacy (which also accepts legacy documents)
        from gnpy.tools.convert_legacy_yang import yang_to_legacy
        doc = yang_to_legacy({'elements': [deepcopy(j1)], 'connections': []})
        _, by2 = build_elements(doc['elements'], eqpt)
        err = None
    except Exception as e:      # noqa
        by2, err = None, f'{type(e).__name__}: {str(e)[:200]}'
    ctx.prove(f'{shape}: the exported fibre can be loaded again', err is None, info=dict(shape=shape, error=err, exported_keys=sorted(j1['params'])))
    if err is not None:
        return
    a, b = by['f'], by2['f']
    probe = np.array([191.5e12, 193.0e12, 195.5e12])
    if shape == 'per_frequency_loss':
        la, lb = [float(x) for x in np.atleast_1d(a.loss_coef_func(probe))], [float(x) for x in np.atleast_1d(b.loss_coef_func(probe))]
        ctx.prove('per_frequency_loss: reloaded fibre has the same loss coefficient over the spectrum (to the export rounding)',
                  all(abs(x - y) <= 5.000001e-10 for x, y in zip(la, lb)), info=dict(before=la, after=lb))
    else:
        ctx.prove('lumped_losses: reloaded fibre has the same lumped losses', list(b.params.lumped_losses) == list(a.params.lumped_losses),
                  info=dict(before=str(list(a.params.lumped_losses)), after=str(list(b.params.lumped_losses)), exported_keys=sorted(j1['params'])))


def h_roadm_export(ctx, policy):
    """Roadm export -> reload -> export: node target of each policy, per-degree targets of all three kinds on different
    degrees (symbolic values, 0 dBm included), per-degree impairment choices and design bands: every setting comes back on
    its own degree and under its own key"""
    eqpt = equipment()
    key = {'pch': 'target_pch_out_db', 'psd': 'target_psd_out_mWperGHz', 'psw': 'target_out_mWperSlotWidth'}[policy]
    node = ctx.real('node_target', lo=-30, hi=5) if policy == 'pch' else ctx.real('node_target', lo=1e-5, hi=1e-2)
    d_pch, d_psd, d_psw = ctx.real('deg_pch_dbm', lo=-30, hi=5), ctx.real('deg_psd', lo=1e-5, hi=1e-2), ctx.real('deg_psw', lo=1e-5, hi=1e-2)
    params = {key: node, 'per_degree_pch_out_db': {'east': d_pch}, 'per_degree_psd_out_mWperGHz': {'west': d_psd},
              'per_degree_psd_out_mWperSlotWidth': {'north': d_psw}}
    _, by = build_elements([{'uid': 'r', 'type': 'Roadm', 'params': params}], eqpt)
    j1 = by['r'].to_json
    p1 = j1['params']
    ctx.prove('node target exported under its own key', eq(p1.get(key), node) and
              sum(1 for k in ('target_pch_out_db', 'target_psd_out_mWperGHz', 'target_out_mWperSlotWidth') if p1.get(k) is not None) == 1)
    for k, deg, v in (('per_degree_pch_out_db', 'east', d_pch), ('per_degree_psd_out_mWperGHz', 'west', d_psd),
                      ('per_degree_psd_out_mWperSlotWidth', 'north', d_psw)):
        got = p1.get(k, {})
        ctx.prove(f'{k}: exactly the operator degree with its own value', list(got) == [deg] and (got[deg] is v or bool(eq(got[deg], v))),
                  info=dict(key=k, exported={a: str(b) for a, b in got.items()}))
    _, by2 = build_elements([deepcopy(j1)], eqpt)
    p2 = by2['r'].to_json['params']
    for k in ('per_degree_pch_out_db', 'per_degree_psd_out_mWperGHz', 'per_degree_psd_out_mWperSlotWidth'):
        ctx.prove(f'second export equals the first: {k}', list(p2.get(k, {})) == list(p1.get(k, {})) and
                  all(bool(eq(p2[k][d], p1[k][d])) for d in p1.get(k, {})))
    ctx.prove('second export equals the first: node target', bool(eq(p2.get(key), p1.get(key))))


def h_raman_fiber_export(ctx):
    """RamanFiber: export -> reload gives an element with the same pumps (powers as seen by the solver, i.e. after the output
    connector), temperature and parameters, for every connector loss and pump power; a second export equals the first"""
    from harness import elems
    symbolic_ctors(ctx)
    eqpt = equipment()
    con_out_lin = ctx.real('con_out_lin', lo=1, hi=2)
    con_out = 10 * elems.log10(ctx, con_out_lin)
    p1, p2 = ctx.real('pump1_w', lo=0.01, hi=1), ctx.real('pump2_w', lo=0.01, hi=1)
    temp = ctx.real('temperature_k', lo=250, hi=350)
    el = {'uid': 'rf', 'type': 'RamanFiber', 'type_variety': 'SSMF',
          'params': {'length': 80, 'length_units': 'km', 'loss_coef': 0.2, 'att_in': 0, 'con_in': 0.5, 'con_out': con_out},
          'operational': {'temperature': temp, 'raman_pumps': [
              {'power': p1, 'frequency': 205e12, 'propagation_direction': 'counterprop'},
              {'power': p2, 'frequency': 201e12, 'propagation_direction': 'coprop'}]}}
    _, by = build_elements([deepcopy(el)], eqpt)
    j1 = by['rf'].to_json
    _, by2 = build_elements([deepcopy(j1)], eqpt)
    a, b = by['rf'], by2['rf']
    ctx.prove('same number of pumps after reload', len(a.raman_pumps) == len(b.raman_pumps) == 2)
    for i, (x, y) in enumerate(zip(a.raman_pumps, b.raman_pumps)):
        ctx.prove(f'pump {i}: power entering the fibre unchanged by export/reload', approx(y.power, x.power, 1e-9),
                  info=dict(before=str(x.power), after=str(y.power)))
        ctx.prove(f'pump {i}: frequency and direction unchanged', x.frequency == y.frequency and
                  x.propagation_direction == y.propagation_direction)
    ctx.prove('temperature unchanged', eq(a.temperature, b.temperature))
    ctx.prove('output connector unchanged', eq(a.params.con_out, b.params.con_out))
    j2 = b.to_json
    for i in range(2):
        ctx.prove(f'second export equals the first: pump {i} power',
                  approx(j2['operational']['raman_pumps'][i]['power'], j1['operational']['raman_pumps'][i]['power'], 1e-9))


# ---------------------------------------------------------------------------------- H17a line level (symbolic)

def h_line_redesign(ctx, layout):
    """complete a line, export, reload, complete again: connector losses, pads and lengths unchanged"""
    from gnpy.core.elements import Fiber
    from gnpy.core.network import add_missing_fiber_attributes
    from gnpy.tools.json_io import network_to_json, network_from_json
    eqpt = deepcopy(equipment())
    span = eqpt['Span']['default']
    span.padding = ctx.real('padding_db', lo=0, hi=20)
    span.EOL = ctx.real('eol_db', lo=0, hi=3)
    span.con_in = ctx.real('default_con_in', lo=0, hi=2)
    span.con_out = ctx.real('default_con_out', lo=0, hi=2)
    amp = lambda u: {'uid': u, 'type': 'Edfa', 'type_variety': 'std_medium_gain',       # noqa
                     'operational': {'gain_target': 20, 'tilt_target': 0, 'out_voa': 0}}

    def fib(u, user):
        p = {'length': ctx.real(f'{u}_km', lo=0.1, hi=150), 'length_units': 'km', 'loss_coef': 0.2}
        if user:
            p.update(att_in=ctx.real(f'{u}_user_att_in', lo=0, hi=6), con_in=ctx.real(f'{u}_user_con_in', lo=0, hi=2),
                     con_out=ctx.real(f'{u}_user_con_out', lo=0, hi=2))
        return {'uid': u, 'type': 'Fiber', 'type_variety': 'SSMF', 'params': p}
    if layout == 'single':
        els, order = [amp('a'), fib('f1', False), amp('b')], ['a', 'f1', 'b']
    elif layout == 'single_user_values':
        els, order = [amp('a'), fib('f1', True), amp('b')], ['a', 'f1', 'b']
    else:
        els = [amp('a'), fib('f1', True), {'uid': 'fu', 'type': 'Fused', 'params': {'loss': 0.5}}, fib('f2', False), amp('b')]
        order = ['a', 'f1', 'fu', 'f2', 'b']
    g, by = build_elements(els, eqpt, connections=[{'from_node': x, 'to_node': y} for x, y in zip(order[:-1], order[1:])])
    g.graph['network_name'] = None
    add_missing_fiber_attributes(g, eqpt)
    first = {u: dict(by[u].to_json['params']) for u in order if isinstance(by[u], Fiber)}
    exported = network_to_json(g)
    g2 = network_from_json(deepcopy(exported), eqpt)
    add_missing_fiber_attributes(g2, eqpt)
    by2 = {n.uid: n for n in g2.nodes()}
    for u, p1 in first.items():
        p2 = by2[u].to_json['params']
        ctx.prove(f'{u}: output connector loss unchanged by export/reload/redesign', _within(p2['con_out'], p1['con_out'], 1e-9),
                  info=dict(layout=layout, fibre=u))
        ctx.prove(f'{u}: input connector loss unchanged', _within(p2['con_in'], p1['con_in'], 1e-9), info=dict(layout=layout, fibre=u))
        ctx.prove(f'{u}: pad unchanged', _within(p2['att_in'], p1['att_in'], 1e-6), info=dict(layout=layout, fibre=u))


# ------------------------------------------------------------------------------------------ pipeline level

def _canon(j):
    return json.loads(json.dumps(j, sort_keys=True, default=float))


def _diff(a, b, tol=1e-5, path=''):
    """list of paths where two JSON values differ by more than the export rounding"""
    out = []
    if isinstance(a, dict) and isinstance(b, dict):
        for k in sorted(set(a) | set(b)):
            if k not in a or k not in b:
                out.append(f'{path}/{k}: missing')
            else:
                out += _diff(a[k], b[k], tol, f'{path}/{k}')
    elif isinstance(a, list) and isinstance(b, list):
        if len(a) != len(b):
            out.append(f'{path}: length {len(a)} vs {len(b)}')
        else:
            for i, (x, y) in enumerate(zip(a, b)):
                out += _diff(x, y, tol, f'{path}[{i}]')
    elif isinstance(a, (int, float)) and isinstance(b, (int, float)) and not isinstance(a, bool) and not isinstance(b, bool):
        if abs(a - b) > tol:
            out.append(f'{path}: {a} vs {b}')
    elif a != b:
        out.append(f'{path}: {a!r} vs {b!r}')
    return out


def _by_uid(j):
    return {'elements': {e['uid']: e for e in j['elements']},
            'connections': sorted((c['from_node'], c['to_node']) for c in j['connections'])}


def h_pipeline(ctx, eol, source):
    from gnpy.tools.json_io import network_to_json, network_from_json, load_json
    from pathlib import Path
    eqpt = deepcopy(equipment())
    eqpt['Span']['default'].EOL = eol
    if source == 'grammar':
        els, cx, sites, desc = _topology(ctx)
        topo = {'elements': els, 'connections': cx}
    else:
        topo = load_json(Path(common.EXAMPLE) / source)
        desc = dict(file=source)
    # power mode or gain mode
    power_mode = ctx.choice('Span power_mode', [True, False])
    eqpt['Span']['default'].power_mode = power_mode
    # library amplifiers with or without automatic output-VOA optimisation
    auto_voa = ctx.choice('out_voa_auto of the library amplifiers', [False, True])
    for a in eqpt['Edfa'].values():
        a.out_voa_auto = auto_voa
    desc = dict(desc, EOL=eol, out_voa_auto=auto_voa, power_mode=power_mode)
    g = network_from_json(deepcopy(topo), eqpt)
    design(g, deepcopy(eqpt))
    j1 = _canon(network_to_json(g))
    # design the designed network object once more, in place (what a power sweep or a per-request redesign does)
    design(g, deepcopy(eqpt))
    d = _diff(_by_uid(j1), _by_uid(_canon(network_to_json(g))))
    ctx.prove('designing the already designed network again changes nothing', not d, info=dict(desc, differences=d[:6], n=len(d)))
    # design the same input twice
    gb = network_from_json(deepcopy(topo), eqpt)
    design(gb, deepcopy(eqpt))
    ctx.prove('designing the same input twice gives identical output', _canon(network_to_json(gb)) == j1, info=desc)
    # export -> reload -> redesign
    g2 = network_from_json(deepcopy(j1), eqpt)
    design(g2, deepcopy(eqpt))
    j2 = _canon(network_to_json(g2))
    d = _diff(_by_uid(j1), _by_uid(j2))
    ctx.prove('export, reload and redesign yields the same elements, settings and connections', not d, info=dict(desc, differences=d[:6], n=len(d)))


def h_sim_params(ctx, setting):
    """auto-design (with a RamanFiber in the network) leaves the process-wide simulation parameters as it found them"""
    from gnpy.core.parameters import SimParams
    from gnpy.tools.json_io import network_from_json, load_json
    from pathlib import Path
    user = {
        'defaults': {},
        'numerical_order3': {'raman_params': {'flag': True, 'method': 'numerical', 'order': 3, 'result_spatial_resolution': 5e3,
                                              'solver_spatial_resolution': 100}, 'nli_params': {'method': 'ggn_approx'}},
        'raman_off_custom_nli': {'raman_params': {'flag': False, 'order': 1}, 'nli_params': {'method': 'gn_model_analytic', 'dispersion_tolerance': 2,
                                                                                         'computed_number_of_channels': 3}},
        'computed_number_of_channels': {'raman_params': {'flag': True, 'method': 'perturbative', 'order': 2},
                                        'nli_params': {'method': 'ggn_approx', 'computed_number_of_channels': 7}},
        'perturbative_order4': {'raman_params': {'flag': True, 'method': 'perturbative', 'order': 4}, 'nli_params': {'method': 'ggn_spectrally_separated',
                                                                                                              'computed_channels': [1, 5]}},
    }[setting]
    SimParams.set_params(deepcopy(user))

    def snapshot():
        # attribute values of the parameter objects themselves (not their own to_json, which may omit a field)
        return {k: {a: (list(b) if isinstance(b, (list, tuple)) else b) for a, b in vars(v).items()} for k, v in SimParams._shared_dict.items()}
    before = snapshot()
    eqpt = deepcopy(equipment())
    topo = load_json(Path(common.EXAMPLE) / 'raman_edfa_example_network.json')
    g = network_from_json(topo, eqpt)
    design(g, eqpt)
    after = snapshot()
    SimParams.set_params({})
    ctx.prove('Raman settings unchanged by auto-design', after['raman_params'] == before['raman_params'],
              info=dict(setting=setting, before=before['raman_params'], after=after['raman_params']))
    ctx.prove('NLI settings unchanged by auto-design', after['nli_params'] == before['nli_params'],
              info=dict(setting=setting, before=before['nli_params'], after=after['nli_params']))


def jobs(tier):
    js = []
    for nf in ((), ('gain',), ('delta_p',), ('tilt',), ('gain', 'delta_p', 'tilt')):
        js.append(dict(name=f'H17b:edfa_export_reload:none={"+".join(nf) or "-"}', fn='h_edfa_export', params=dict(none_fields=nf), cost=10))
    js.append(dict(name='H17b:fiber_export_reload', fn='h_fiber_export', cost=10))
    for shape in ('per_frequency_loss', 'lumped_losses'):
        js.append(dict(name=f'H17b:fiber_export_reload:{shape}', fn='h_fiber_export_special', params=dict(shape=shape), cost=10,
                       continue_after_violation=True))
    js.append(dict(name='H17b:split_fibre_exports_operator_pmd_coef', module='harness.c08', fn='h_split',
                   params=dict(max_km=150, padding=10, fibre='operator_pmd_coef'), cost=30, witness_every=1))
    js.append(dict(name='H17b:raman_fiber_export_reload', fn='h_raman_fiber_export', cost=10))
    for pol in ('pch', 'psd', 'psw'):
        js.append(dict(name=f'H17b:roadm_export_reload:{pol}', fn='h_roadm_export', params=dict(policy=pol), cost=10))
    for layout in ('single', 'single_user_values', 'spliced'):
        js.append(dict(name=f'H17a:line_export_reload_redesign:{layout}', fn='h_line_redesign', params=dict(layout=layout), cost=30,
                       continue_after_violation=True))
    for eol in (0,):
        js.append(dict(name=f'H17a:pipeline:grammar:EOL={eol}', fn='h_pipeline', params=dict(eol=eol, source='grammar'), cost=300,
                       budget_s=250 if tier == 'quick' else 600, continue_after_violation=True))
    for f in (['edfa_example_network.json'] if tier == 'quick' else ['edfa_example_network.json', 'meshTopologyExampleV2.json']):
        js.append(dict(name=f'H17a:pipeline:{f}', fn='h_pipeline', params=dict(eol=0, source=f), cost=100, continue_after_violation=True))
    for s in ('defaults', 'numerical_order3', 'raman_off_custom_nli', 'perturbative_order4', 'computed_number_of_channels'):
        js.append(dict(name=f'H17c:sim_params_preserved:{s}', fn='h_sim_params', params=dict(setting=s), cost=80))
    return js
