"""element-level harnesses shared by C01/C02 (to be filled)"""


def jobs_c01(tier):
    return []
