"""element-level inductive-step harnesses (real element __call__) shared by C01, C02, C04, C05, C06.

Each harness starts from an arbitrary SpectralInformation satisfying the invariant I, calls the real element once and
states the obligations selected by `props` (a set of property ids)."""
import math
import numpy as np

from harness.common import *      # noqa
from harness import common
from symx.core import approx, approx_db

setup = common.setup

BAUDS = [32e9, 64e9, 42e9, 32e9, 60e9, 28e9]
SLOTS = [50e9, 75e9, 50e9, 37.5e9, 62.5e9, 37.5e9]
FREQS = [193.0e12, 193.1e12, 193.2e12, 193.3e12, 193.4e12, 193.5e12]


def lin(ctx, x_db):
    """10**(x/10) in either mode"""
    return 10 ** (x_db / 10)


def log10(ctx, x):
    return x.log10() if is_symbolic(x) else math.log10(x)


def lin_const(ctx, x_db):
    """10**(x/10) of a concrete dB constant obtained through the engine (same named constant as the code's own
    conversion), a float in replay"""
    if ctx.mode == 'sym':
        return (SR.lift(x_db) / 10).exp10()
    return 10 ** (x_db / 10)


# ------------------------------------------------------------------------------------------------------------ ROADM

def h_roadm(ctx, policy, override, k, props, sym_maxloss=True):
    """real Roadm.__call__ with node policy in {pch, psd, psw} and optional per-degree override"""
    from gnpy.core.elements import Roadm
    from gnpy.core.info import ReferenceCarrier
    symbolic_ctors(ctx)
    params = {'add_drop_osnr': 38, 'pmd': 0, 'pdl': 0, 'restrictions': {'preamp_variety_list': [], 'booster_variety_list': []}}
    # node-level target
    if policy == 'pch':
        t_node_lin = ctx.pos_real('node_target_mw')                  # target power in mW
        params['target_pch_out_db'] = 10 * log10(ctx, t_node_lin)    # dBm
    elif policy == 'psd':
        t_node_lin = ctx.pos_real('node_psd')                        # mW/GHz
        params['target_psd_out_mWperGHz'] = t_node_lin
    else:
        t_node_lin = ctx.pos_real('node_psw')
        params['target_out_mWperSlotWidth'] = t_node_lin
    pol, tval = policy, t_node_lin
    if override != 'none':
        tval = ctx.pos_real('deg_target')
        pol = override
        if override == 'pch':
            params['per_degree_pch_out_db'] = {'east': 10 * log10(ctx, tval)}
        elif override == 'psd':
            params['per_degree_psd_out_mWperGHz'] = {'east': tval}
        else:
            params['per_degree_psd_out_mWperSlotWidth'] = {'east': tval}
    # internal path impairments: symbolic max loss (dB >= 0) per frequency band (two bands when k >= 2, so that
    # channels of one crossing see different path losses), pmd, pdl
    nb = 2 if (k >= 2 and sym_maxloss) else 1
    maxloss_band = [ctx.real(f'maxloss_lin{b}', lo=1) if sym_maxloss else 1.0 for b in range(nb)]
    pmd_imp = ctx.real('roadm_pmd', lo=0)
    pdl_imp = ctx.real('roadm_pdl', lo=0)
    split = FREQS[(k + 1) // 2 - 1] + 40e9        # band edge between channel (k+1)//2 - 1 and the next one
    ranges = [(191.0e12, split), (split, 196.5e12)] if nb == 2 else [(191.0e12, 196.5e12)]
    params['roadm-path-impairments'] = [{
        'roadm-path-impairments-id': 0,
        'roadm-express-path': [{'frequency-range': {'lower-frequency': lo_, 'upper-frequency': hi_},
                                'roadm-maxloss': (10 * log10(ctx, maxloss_band[b]) if sym_maxloss else 0.0),
                                'roadm-pmd': pmd_imp, 'roadm-pdl': pdl_imp, 'roadm-osnr': 30.0, 'roadm-noise-figure': 20.0}
                               for b, (lo_, hi_) in enumerate(ranges)]}]
    maxloss_ch = [maxloss_band[0 if FREQS[i] < split or nb == 1 else 1] for i in range(k)]
    roadm = Roadm(uid='roadm', params=params)
    roadm.set_roadm_paths(from_degree='west', to_degree='east', path_type='express', impairment_id=0)
    roadm.ref_carrier = ReferenceCarrier(baud_rate=32e9, slot_width=50e9)
    ref_in_lin = ctx.pos_real('ref_pch_in_mw')
    roadm.ref_pch_in_dbm = {'west': 10 * log10(ctx, ref_in_lin)}
    # offsets per channel
    off_lin = [ctx.pos_real(f'offset{i}') for i in range(k)]
    off_db = [10 * log10(ctx, x) for x in off_lin]
    pmd0 = [ctx.real(f'pmd_in{i}', lo=0) for i in range(k)]
    si = make_si(ctx, k, freqs=FREQS[:k], baud_list=BAUDS[:k], slot_list=SLOTS[:k], delta_pdb=off_db,
                 extra=dict(pmd=arr(pmd0), pdl=arr(pmd0), chromatic_dispersion=arr([1e-3 * (i + 1) for i in range(k)])))
    pre = snap(si)
    cd0 = list(si.chromatic_dispersion)
    out = roadm(si, degree='east', from_degree='west')
    ctx.prove('roadm:same_object_returned', out is si)
    for i in range(k):
        # target per channel in W
        if pol == 'pch':
            target_w = tval * 1e-3
        elif pol == 'psd':
            target_w = tval * (BAUDS[i] * 1e-9) * 1e-3
        else:
            target_w = tval * (SLOTS[i] * 1e-9) * 1e-3
        want = target_w * off_lin[i]
        avail = pre['p'][i] / maxloss_ch[i]
        expected = want if bool(want <= avail) else avail      # exact comparison: oracle decision, not an obligation
        if 'C06' in props:
            ctx.prove(f'roadm:{policy}/{override}:pout=min(target+offset,pin-loss)[{i}]', approx(si._pch[i], expected, 1e-11))
            ctx.prove(f'roadm:never_amplifies[{i}]', le(si._pch[i], pre['p'][i]))
            ctx.prove(f'roadm:reported_pch_out_dbm[{i}]', approx_db(roadm.pch_out_dbm[i], 10 * log10(ctx, si._pch[i] * 1e3)))
            ctx.prove(f'roadm:reported_loss[{i}]', approx_db(roadm.loss_pch_db[i],
                                                           10 * log10(ctx, pre['p'][i]) - 10 * log10(ctx, si._pch[i])))
        if 'C05' in props:
            ctx.prove(f'roadm:pmd_quadrature[{i}]', eq(si.pmd[i] ** 2, pmd0[i] ** 2 + pmd_imp ** 2))
            ctx.prove(f'roadm:pdl_quadrature[{i}]', eq(si.pdl[i] ** 2, pmd0[i] ** 2 + pdl_imp ** 2))
            ctx.prove(f'roadm:cd_untouched[{i}]', si.chromatic_dispersion[i] == cd0[i])
    if 'C01' in props:
        c01_obligations(ctx, si, 'roadm')
    if 'C02' in props:
        c02_obligations(ctx, pre, si, 'roadm', 'passive')


# ------------------------------------------------------------------------------------------------------------ Fused

def h_fused(ctx, k, props):
    from gnpy.core.elements import Fused
    symbolic_ctors(ctx)
    loss_lin = ctx.real('loss_lin', lo=1)
    fused = Fused(uid='fused', params={'loss': 10 * log10(ctx, loss_lin)})
    si = make_si(ctx, k)
    pre = snap(si)
    out = fused(si)
    ctx.prove('fused:same_object_returned', out is si)
    for i in range(k):
        ctx.prove(f'fused:attenuated_by_loss[{i}]', eq(si._pch[i] * loss_lin, pre['p'][i]))
    if 'C01' in props:
        c01_obligations(ctx, si, 'fused')
    if 'C02' in props:
        c02_obligations(ctx, pre, si, 'fused', 'passive')


def jobs_c01(tier):
    ks = [1, 2, 3] if tier == 'quick' else [1, 2, 3, 4, 5]
    js = []
    for k in ks[1:]:
        for pol, ov in (('pch', 'none'), ('psd', 'pch'), ('psw', 'psd')):
            js.append(dict(name=f'H1b:roadm:{pol}/{ov}:k{k}', module='harness.elems', fn='h_roadm',
                           params=dict(policy=pol, override=ov, k=k, props=('C01',)), cost=2 ** k))
    for k in ks:
        js.append(dict(name=f'H1b:fused:k{k}', module='harness.elems', fn='h_fused', params=dict(k=k, props=('C01',))))
    for k in ks:
        for var in (['ssmf80', 'nzdf120_lumped'] if tier == 'quick' else list(FIBER_VARIANTS)):
            js.append(dict(name=f'H1b:fiber:{var}:k{k}', module='harness.elems', fn='h_fiber',
                           params=dict(variant=var, k=k, props=('C01',)), cost=3 ** k))
    for var in EDFA_QUICK:
        for k in ks[1:]:
            js.append(dict(name=f'H1b:edfa:{var}:k{k}', module='harness.elems', fn='h_edfa',
                           params=dict(variety=var, k=k, props=('C01',)), cost=4 ** k))
    return js


# ------------------------------------------------------------------------------------------------------------ Fiber

FIBER_VARIANTS = {
    'ssmf80': dict(type_variety='SSMF', length=80.0, loss_coef=0.2, lumped=[]),
    'nzdf120_lumped': dict(type_variety='NZDF', length=120.0, loss_coef=0.22,
                           lumped=[{'position': 40.0, 'loss': 0.5}, {'position': 90.0, 'loss': 1.5}]),
    'ssmf5': dict(type_variety='SSMF', length=5.0, loss_coef=0.25, lumped=[{'position': 2.0, 'loss': 2.0}]),
    'negdisp60': dict(type_variety='SSMF', length=60.0, loss_coef=0.21, lumped=[], extra={'dispersion': -8e-6}),
    'slope75': dict(type_variety='SSMF', length=75.0, loss_coef=0.2, lumped=[], extra={'dispersion': 1.67e-5, 'dispersion_slope': 60.0}),
    # per-frequency loss table given in descending frequency order (ascending wavelength)
    'perfreq_desc70': dict(type_variety='SSMF', length=70.0, lumped=[{'position': 30.0, 'loss': 1.0}],
                           loss_coef={'frequency': [196.0e12, 194.0e12, 192.5e12, 191.0e12], 'value': [0.23, 0.2, 0.19, 0.21]}),
}


def set_sim_params(nli_method='gn_model_analytic', raman=False):
    from gnpy.core.parameters import SimParams
    SimParams.set_params({'raman_params': {'flag': raman, 'result_spatial_resolution': 10e3,
                                           'solver_spatial_resolution': 50},
                          'nli_params': {'method': nli_method, 'dispersion_tolerance': 1, 'phase_shift_tolerance': 0.1,
                                         'computed_channels': None, 'computed_number_of_channels': None}})


def h_fiber(ctx, variant, k, props, pmax=0.01, nli_method='gn_model_analytic'):
    """real Fiber.__call__ (Raman flag off) on a concrete fibre with symbolic pads/connectors, powers and splits"""
    symbolic_ctors(ctx)
    set_sim_params(nli_method)
    v = FIBER_VARIANTS[variant]
    att_in_lin = ctx.real('att_in_lin', lo=1)
    con_in_lin = ctx.real('con_in_lin', lo=1)
    con_out_lin = ctx.real('con_out_lin', lo=1)
    att_in, con_in, con_out = (10 * log10(ctx, x) for x in (att_in_lin, con_in_lin, con_out_lin))
    _, els = build_elements([{'uid': 'fiber', 'type': 'Fiber', 'type_variety': v['type_variety'],
                              'params': dict({'length': v['length'], 'length_units': 'km', 'loss_coef': v['loss_coef'],
                                              'att_in': 0, 'con_in': 0, 'con_out': 0, 'lumped_losses': v['lumped']},
                                             **v.get('extra', {}))}])
    fiber = els['fiber']
    fiber.params.att_in, fiber.params.con_in, fiber.params.con_out = att_in, con_in, con_out
    fiber.ref_pch_in_dbm = 0.0
    cd0 = [ctx.real(f'cd_in{i}', lo=0) for i in range(k)]
    pmd0 = [ctx.real(f'pmd_in{i}', lo=0, hi=1e-10) for i in range(k)]
    lat0 = [ctx.real(f'lat_in{i}', lo=0) for i in range(k)]
    si = make_si(ctx, k, pmax=pmax, extra=dict(chromatic_dispersion=arr(cd0), pmd=arr(pmd0), latency=arr(lat0)))
    pre = snap(si)
    # Fiber.__call__ rounds the total loss for a display attribute (round(pout - pin, 2)): irrelevant to the property,
    # call propagate (the body of __call__ apart from that attribute)
    fiber.propagate(si)
    # independent oracle for the span budget in dB (concrete part) and linear (symbolic part)
    def coef_at(f):
        lc = v['loss_coef']
        if isinstance(lc, dict):
            pairs = sorted(zip(lc['frequency'], lc['value']))
            return float(np.interp(f, [x for x, _ in pairs], [y for _, y in pairs]))
        return lc
    lumped_db = sum(x['loss'] for x in v['lumped'])
    for i in range(k):
        fibre_lin = 10 ** ((coef_at(pre['f'][i]) * v['length'] + lumped_db) / 10)
        if 'C05' in props:
            ctx.prove(f'fiber:loss_budget[{i}]',
                      approx(si._pch[i] * att_in_lin * con_in_lin * con_out_lin * fibre_lin, pre['p'][i], 1e-9))
            ctx.prove(f'fiber:cd_additive[{i}]', approx(si.chromatic_dispersion[i] - cd0[i],
                                                       float(fiber.chromatic_dispersion(pre['f'][i])), 1e-12))
            ctx.prove(f'fiber:latency_additive[{i}]', approx(si.latency[i] - lat0[i], v['length'] * 1e3 * 1.468 / 299792458.0, 1e-12))
            ctx.prove(f'fiber:pmd_quadrature[{i}]', approx(si.pmd[i] ** 2 - pmd0[i] ** 2,
                                                         float(fiber.params.pmd_coef) ** 2 * v['length'] * 1e3, 1e-9))
    if 'C05' in props:
        fibre_db = coef_at(float(fiber.params.ref_frequency)) * v['length'] + lumped_db
        ctx.prove('fiber:loss_property', approx_db(fiber.loss, att_in + con_in + con_out + fibre_db, 1e-9))
    if 'C01' in props:
        c01_obligations(ctx, si, 'fiber')
    if 'C02' in props:
        c02_obligations(ctx, pre, si, 'fiber', 'fiber')


# ------------------------------------------------------------------------------------------------------------- Edfa

H_PLANCK = 6.62607015e-34


def h_edfa(ctx, variety, k, props, sym_pmax=False, oob=False, sym_invoa=False, eqpt_name='eqpt_config.json', sym_band=False,
           history=False):
    """real Edfa.__call__ (flat profile: tilt 0, no ripple) with symbolic set gain, VOAs, input powers and splits"""
    symbolic_ctors(ctx)
    eqpt = equipment(eqpt_name)
    _, els = build_elements([{'uid': 'amp', 'type': 'Edfa', 'type_variety': variety,
                              'operational': {'gain_target': 20.0, 'tilt_target': 0, 'out_voa': 0.0}}], eqpt)
    amp = els['amp']
    g_lin = ctx.real('gain_lin', lo=10 ** -0.5, hi=1e5)
    voa_lin = ctx.real('out_voa_lin', lo=1, hi=100)
    amp.effective_gain = 10 * log10(ctx, g_lin)
    amp.out_voa = 10 * log10(ctx, voa_lin)
    invoa_lin = 1.0
    if sym_invoa:
        invoa_lin = ctx.real('in_voa_lin', lo=1, hi=100)
        amp.in_voa = 10 * log10(ctx, invoa_lin)
    if sym_pmax:
        pmax_mw = ctx.real('pmax_mw', lo=1, hi=1000)
        amp.params.p_max = 10 * log10(ctx, pmax_mw)
    else:
        pmax_mw = lin_const(ctx, amp.params.p_max)
    freqs = FREQS[:k]
    labels = [f'ch{i}' for i in range(k)]
    if oob:
        freqs = [190.0e12] + freqs      # below f_min of every C-band model
        labels = ['oob'] + labels
    n = len(freqs)
    si = make_si(ctx, n, freqs=freqs, labels=labels, pmax=0.1)
    pre = snap(si)
    idx = list(range(1, n)) if oob else list(range(n))
    if sym_band:
        # symbolic lower band edge around the first carrier: its slot may lie inside, straddle the edge or lie outside
        half = pre['slot'][idx[0]] / 2
        bf = ctx.real('band_f_min', lo=freqs[idx[0]] - 3 * half, hi=freqs[idx[0]] + half)
        amp.params.bands = [{'f_min': bf, 'f_max': amp.params.f_max}]
        if not bool(bf <= freqs[idx[0]] - half):
            idx = idx[1:]
        if not idx:
            return
        k = len(idx)
    fresh = None
    if history:
        # the same amplifier instance first carries another comb (same channel count, other frequencies, weak signals);
        # what it does to the comb under test must be what a fresh instance with the same settings does
        import copy
        from gnpy.core.info import create_arbitrary_spectral_information
        fresh = copy.copy(amp)
        fresh.params = copy.copy(amp.params)
        other = create_arbitrary_spectral_information(frequency=[f + 1.2e12 + 37.5e9 for f in freqs], pch=1e-10, baud_rate=32e9,
                                                      tx_osnr=40.0, tx_power=1e-10, slot_width=50e9)
        amp(other)
    out = amp(si)
    ctx.prove('edfa:in_band_channels_only', out.number_of_channels == k and
              all(out.frequency[j] == pre['f'][i] and out.label[j] == pre['label'][i] for j, i in enumerate(idx)))
    # ---- oracle
    pin_tot = 0
    for i in idx:
        pin_tot = pin_tot + pre['p'][i] / invoa_lin
    g_clamp = pmax_mw / (pin_tot * 1e3)
    g_eff = g_lin if bool(g_lin <= g_clamp) else g_clamp
    if 'C04' in props:
        ctx.prove('edfa:effective_gain=min(set,pmax-pin)', approx(10 ** (amp.effective_gain / 10), g_eff, 1e-11))
        ctx.prove('edfa:signal_output_within_pmax', le(10 ** (amp.effective_gain / 10) * pin_tot * 1e3, pmax_mw * (1 + 1e-11)))
        ctx.prove('edfa:gain_not_raised', le(10 ** (amp.effective_gain / 10), g_lin * (1 + 1e-11)))
    ripple = list(amp.interpol_gain_ripple)
    flat = max(ripple) == min(ripple)
    for j, i in enumerate(idx):
        nf_lin = 10 ** (amp.nf[j] / 10)
        if not flat:
            # models with gain ripple: per-channel gain is the reported profile (normalisation of the profile to the
            # set-point under ripple/tilt is an approximation and outside the claim)
            g_eff = 10 ** (amp.gprofile[j] / 10)
        ase = H_PLANCK * pre['f'][i] * pre['baud'][i] * nf_lin
        pin = pre['p'][i] / invoa_lin
        if 'C04' in props:
            ctx.prove(f'edfa:pout=(pin+ase)*G/voa[{i}]', approx(out._pch[j] * voa_lin, (pin + ase) * g_eff, 1e-9))
            ctx.prove(f'edfa:ase_added_is_hfB.NF[{i}]', approx(out.ase[j] * voa_lin, (pin * pre['a'][i] + ase) * g_eff, 1e-9))
            ctx.prove(f'edfa:signal_amplified_by_gain[{i}]', approx(out.signal[j] * voa_lin, pin * pre['s'][i] * g_eff, 1e-9))
            ctx.prove(f'edfa:nli_amplified_by_gain[{i}]', approx(out.nli[j] * voa_lin, pin * pre['n'][i] * g_eff, 1e-9))
            ctx.prove(f'edfa:reported_pch_out_dbm[{i}]', approx_db(amp.pch_out_dbm[j], 10 * log10(ctx, out._pch[j] * 1e3)))
    if fresh is not None:
        from gnpy.core.info import SpectralInformation
        twin = make_twin(si, pre)
        ref = fresh(twin)
        for j in range(out.number_of_channels):
            ctx.prove(f'edfa:history:same_output_as_a_fresh_instance[{j}]',
                      And(approx(out._pch[j], ref._pch[j], 1e-9), approx(out.ase[j], ref.ase[j], 1e-9),
                          approx(out.signal[j], ref.signal[j], 1e-9)), info=dict(variety=variety))
    if 'C01' in props:
        c01_obligations(ctx, out, 'edfa')
        # the spectrum object handed to the amplifier (which a caller may inspect or propagate again: sweeps, broadcast) is
        # either the one returned, or still a consistent spectrum with the split it had before the call
        if out is not si:
            for i in range(k):
                ctx.prove(f'edfa:input_object_split_intact_after_call[{i}]',
                          And(eq(si._signal_ratio[i], pre['s'][i]), eq(si._ase_ratio[i], pre['a'][i]), eq(si._nli_ratio[i], pre['n'][i]),
                              eq(si._pch[i], pre['p'][i])))
    if 'C02' in props:
        c02_obligations(ctx, pre, out, 'edfa', 'amp', idx=idx)


EDFA_QUICK = ['std_medium_gain', 'std_fixed_gain', 'high_detail_model_example', 'openroadm_ila_low_noise',
              'openroadm_mw_mw_preamp', 'openroadm_mw_mw_booster', 'medium+low_gain']


# ------------------------------------------------------------------------------------------------------ Transceiver

def h_trx(ctx, k, n_added, props, repeat=1):
    """real Transceiver.__call__ + update_snr: the reported figures obey 1/GSNR = 1/OSNR_ASE + 1/SNR_NLI, the added
    OSNRs (tx, add/drop) are counted exactly once, and repeated update_snr calls do not accumulate"""
    from gnpy.core.elements import Transceiver
    symbolic_ctors(ctx)
    trx = Transceiver(uid='trx')
    bauds = BAUDS[:k]
    si = make_si(ctx, k, freqs=FREQS[:k], baud_list=bauds, slot_list=[75e9] * k, spacing=100e9)
    for i in range(k):
        ctx.assume(gt(si._ase_ratio[i], 0))
        ctx.assume(gt(si._nli_ratio[i], 0))
    pre = snap(si)
    trx(si)
    L = lambda x_db: 10 ** (x_db / 10)      # noqa
    for i in range(k):
        s, a, n = pre['s'][i], pre['a'][i], pre['n'][i]
        ctx.prove(f'trx:raw:inverse_sum[{i}]', approx(1 / L(trx.snr[i]), 1 / L(trx.osnr_ase[i]) + 1 / L(trx.osnr_nli[i]), 1e-11))
        ctx.prove(f'trx:raw:osnr_ase=s/a[{i}]', approx(L(trx.osnr_ase[i]) * a, s, 1e-11))
        ctx.prove(f'trx:raw:osnr_nli=s/n[{i}]', approx(L(trx.osnr_nli[i]) * n, s, 1e-11))
        ctx.prove(f'trx:raw:gsnr=s/(a+n)[{i}]', approx(L(trx.snr[i]) * (a + n), s, 1e-11))
        ctx.prove(f'trx:raw:01nm_scaling[{i}]', approx(L(trx.snr_01nm[i]) * 12.5e9, L(trx.snr[i]) * bauds[i], 1e-11))
        ctx.prove(f'trx:raw:osnr_01nm_scaling[{i}]', approx(L(trx.osnr_ase_01nm[i]) * 12.5e9, L(trx.osnr_ase[i]) * bauds[i], 1e-11))
    if n_added:
        for r in range(repeat):
            added_lin = [ctx.pos_real(f'added_osnr{r}_{j}') for j in range(n_added)]    # linear OSNR in 0.1 nm
            added_db = [10 * log10(ctx, x) for x in added_lin]
            args = list(added_db)
            if r == 0 and n_added >= 2:
                args.insert(1, None)        # a None entry (no add/drop contribution) must be ignored
            trx.update_snr(*args)
        inv_added = 0
        for x in added_lin:                 # only the last call counts
            inv_added = inv_added + 1 / x
        for i in range(k):
            s, a, n = pre['s'][i], pre['a'][i], pre['n'][i]
            # 1/snr_01nm = 1/raw_01nm + sum 1/osnr_k   (everything referred to 0.1 nm = 12.5 GHz)
            raw01 = s / (a + n) * bauds[i] / 12.5e9
            ctx.prove(f'trx:update:gsnr_01nm_counts_each_once[{i}]', approx(1 / L(trx.snr_01nm[i]), 1 / raw01 + inv_added, 1e-10))
            rawo01 = s / a * bauds[i] / 12.5e9
            ctx.prove(f'trx:update:osnr_01nm_counts_each_once[{i}]', approx(1 / L(trx.osnr_ase_01nm[i]), 1 / rawo01 + inv_added, 1e-10))
            # signal-bandwidth figures: the added noise is scaled to the signal bandwidth
            ctx.prove(f'trx:update:gsnr_bw[{i}]', approx(1 / L(trx.snr[i]), (a + n) / s + inv_added * bauds[i] / 12.5e9, 1e-10))
            ctx.prove(f'trx:update:consistent_01nm[{i}]', approx(L(trx.snr_01nm[i]) * 12.5e9, L(trx.snr[i]) * bauds[i], 1e-10))
            ctx.prove(f'trx:update:raw_kept[{i}]', approx(L(trx.raw_snr[i]) * (a + n), s, 1e-11))


# ------------------------------------------------------------------------------------------------------- RamanFiber

def h_raman_fiber(ctx, pumps, k, props):
    """real RamanFiber.propagate with the Raman solver on: channel powers concrete (the Raman ODE solve runs in floats),
    signal/ASE/NLI split symbolic.  pumps: 'above' (all pumps above the comb) | 'inside' (one pump below some channels)"""
    from symx import npshim
    from gnpy.core.info import SpectralInformation
    npshim.object_constructors(False)
    set_sim_params('gn_model_analytic', raman=True)
    freqs = [193.0e12 + i * 2.0e12 for i in range(k)]            # wide comb
    pump_list = [{'power': 0.2, 'frequency': 205.0e12, 'propagation_direction': 'counterprop'}]
    if pumps == 'inside':
        pump_list.append({'power': 0.15, 'frequency': freqs[0] + 1.0e12, 'propagation_direction': 'counterprop'})
    else:
        pump_list.append({'power': 0.15, 'frequency': 201.0e12 + 2.0e12 * k, 'propagation_direction': 'counterprop'})
    _, els = build_elements([{'uid': 'rf', 'type': 'RamanFiber', 'type_variety': 'SSMF',
                              'operational': {'temperature': 283, 'raman_pumps': pump_list},
                              'params': {'length': 80.0, 'loss_coef': 0.2, 'length_units': 'km', 'att_in': 0,
                                         'con_in': 0.5, 'con_out': 0.5}}])
    rf = els['rf']
    p = [1e-3 * (1 + 0.1 * i) for i in range(k)]
    s, a, n = [], [], []
    for i in range(k):
        si_ = ctx.real(f's{i}', lo=0, lo_strict=True, hi=1)
        ai_ = ctx.real(f'a{i}', lo=0, hi=1)
        ni_ = 1 - si_ - ai_
        ctx.assume(ge(ni_, 0))
        s.append(si_), a.append(ai_), n.append(ni_)
    z = np.zeros(k)
    si = SpectralInformation(frequency=np.array(freqs), baud_rate=np.full(k, 32e9), slot_width=np.full(k, 50e9),
                             pch=np.array(p), signal_ratio=arr(s), ase_ratio=arr(a), nli_ratio=arr(n),
                             roll_off=np.full(k, 0.15), chromatic_dispersion=z.copy(), pmd=z.copy(), pdl=z.copy(),
                             latency=z.copy(), delta_pdb_per_channel=z.copy(), tx_osnr=np.full(k, 40.0),
                             tx_power=np.full(k, 1e-3), label=np.array([f'ch{i}' for i in range(k)], dtype=object))
    pre = snap(si)
    rf.propagate(si)
    set_sim_params('gn_model_analytic', raman=False)
    if 'C01' in props:
        c01_obligations(ctx, si, 'ramanfiber')
    if 'C02' in props:
        c02_obligations(ctx, pre, si, 'ramanfiber', 'raman')


def h_raman_fiber_pad(ctx, k=2):
    """real RamanFiber.propagate with the Raman solver on, weak concrete channel powers (undepleted pump: the gain seen by the
    signal does not depend on its power), symbolic signal/ASE/NLI split: the same span with an input pad of 3 dB delivers every
    channel's signal component exactly 3 dB lower than without pad (the pad is part of the loss budget of a Raman span too)"""
    from symx import npshim
    from gnpy.core.info import SpectralInformation
    npshim.object_constructors(False)
    set_sim_params('gn_model_analytic', raman=True)
    freqs = [193.0e12 + i * 1.0e12 for i in range(k)]
    pump_list = [{'power': 0.2, 'frequency': 205.0e12, 'propagation_direction': 'counterprop'}]
    s, a, n = [], [], []
    for i in range(k):
        si_ = ctx.real(f's{i}', lo=0, lo_strict=True, hi=1)
        ai_ = ctx.real(f'a{i}', lo=0, hi=1)
        ni_ = 1 - si_ - ai_
        ctx.assume(ge(ni_, 0))
        s.append(si_), a.append(ai_), n.append(ni_)
    out = {}
    for pad in (0.0, 3.0):
        _, els = build_elements([{'uid': 'rf', 'type': 'RamanFiber', 'type_variety': 'SSMF',
                                  'operational': {'temperature': 283, 'raman_pumps': pump_list},
                                  'params': {'length': 80.0, 'loss_coef': 0.2, 'length_units': 'km', 'att_in': pad, 'con_in': 0.5, 'con_out': 0.5}}])
        z = np.zeros(k)
        si = SpectralInformation(frequency=np.array(freqs), baud_rate=np.full(k, 32e9), slot_width=np.full(k, 50e9),
                                 pch=np.full(k, 1e-9), signal_ratio=arr(s), ase_ratio=arr(a), nli_ratio=arr(n),
                                 roll_off=np.full(k, 0.15), chromatic_dispersion=z.copy(), pmd=z.copy(), pdl=z.copy(),
                                 latency=z.copy(), delta_pdb_per_channel=z.copy(), tx_osnr=np.full(k, 40.0),
                                 tx_power=np.full(k, 1e-9), label=np.array([f'ch{i}' for i in range(k)], dtype=object))
        els['rf'].propagate(si)
        out[pad] = [si.signal[i] for i in range(k)]
    set_sim_params('gn_model_analytic', raman=False)
    lin = 10 ** 0.3
    for i in range(k):
        ctx.prove(f'raman span: a 3 dB input pad lowers the delivered signal by 3 dB [{i}]', approx(out[0.0][i], out[3.0][i] * lin, 1e-5),
                  info=dict(channel=i))
