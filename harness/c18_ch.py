"""C18 CrossHair harnesses: each function calls the real converters on a bounded symbolic document and returns True when
the property holds; `post: __return__` lets CrossHair (symbolic execution with z3) search for an input making it False.
Run by harness/c18.py, one process per function."""
from copy import deepcopy
from typing import Dict, List, Optional, Tuple

from gnpy.tools import yang_convert_utils as ycu
from gnpy.tools.json_io import _equipment_from_json
from gnpy.tools.yang_convert_utils import (
    convert_degree, convert_back_degree, convert_design_band, convert_back_design_band, convert_loss_coeff_list,
    convert_back_loss_coeff_list, convert_delta_power_range, convert_back_delta_power_range, convert_nf_coef,
    convert_back_nf_coef, convert_nf_fit_coef, convert_back_nf_fit_coef, convert_raman_coef, convert_back_raman_coef,
    convert_raman_efficiency, convert_back_raman_efficiency, convert_none_to_empty, convert_empty_to_none,
    remove_namespace_context, add_missing_default_type_variety, convert_dict, convert_back, reorder_route_objects,
    reorder_lumped_losses_objects, reorder_raman_pumps)

NS = 'gnpy-network-topology:'


def _topo(elems: list) -> dict:
    return {'elements': elems, 'connections': []}


def ns_prefix_only(s: str) -> bool:
    """
    pre: len(s) <= 26
    post: __return__
    """
    # identity values carry the namespace as a PREFIX; every other string must come back unchanged
    out = remove_namespace_context({'k': s, 'l': [s]}, 'ab:')
    want = s[len('ab:'):] if s.startswith('ab:') else s
    return out['k'] == want and out['l'][0] == want


def degree_roundtrip(pch: Dict[str, int], psd: Dict[str, int], psw: Dict[str, int], other: int) -> bool:
    """
    pre: len(pch) <= 2 and len(psd) <= 2 and len(psw) <= 2
    post: __return__
    """
    params = {'x': other}
    if pch:
        params['per_degree_pch_out_db'] = dict(pch)
    if psd:
        params['per_degree_psd_out_mWperGHz'] = dict(psd)
    if psw:
        params['per_degree_psd_out_mWperSlotWidth'] = dict(psw)
    doc = _topo([{'uid': 'r', 'type': 'Roadm', 'params': params}, {'uid': 'f', 'type': 'Fiber', 'params': {'length': other}}])
    ref = deepcopy(doc)
    y = convert_degree(deepcopy(doc))
    y2 = convert_degree(deepcopy(y))
    back = convert_back_degree(deepcopy(y))
    # idempotent, invertible, structure: one list entry per (degree, type)
    n = len(pch) + len(psd) + len(psw)
    lst = y['elements'][0]['params'].get('per_degree_power_targets', [])
    return y2 == y and back == ref and len(lst) == n


def design_band_roundtrip(bands: Dict[str, List[int]], other: int) -> bool:
    """
    pre: len(bands) <= 2 and all(len(v) <= 2 for v in bands.values())
    post: __return__
    """
    params = {'x': other}
    if bands:
        params['per_degree_design_bands'] = {k: [{'f_min': f, 'f_max': f + 1} for f in v] for k, v in bands.items()}
    doc = _topo([{'uid': 'r', 'type': 'Roadm', 'params': params}])
    ref = deepcopy(doc)
    y = convert_design_band(deepcopy(doc))
    return convert_design_band(deepcopy(y)) == y and convert_back_design_band(deepcopy(y)) == ref


def two_roadms_roundtrip(d1: int, d2: int, f1: int, f2: int, has1: bool, has2: bool, t1: int, t2: int) -> bool:
    """
    pre: 0 <= d1 <= 2 and 0 <= d2 <= 2 and 0 <= t1 <= 2 and 0 <= t2 <= 2
    post: __return__
    """
    # two ROADMs each with their own per-degree design bands and per-degree power targets (degree names and equalisation
    # types symbolic, values incl. 0): nothing of one ROADM may show up in the other, both directions, idempotent
    DEG = ['east', 'west', 'north']
    TYP = ['per_degree_pch_out_db', 'per_degree_psd_out_mWperGHz', 'per_degree_psd_out_mWperSlotWidth']
    els = []
    for uid, has, d, f, t in (('r1', has1, d1, f1, t1), ('r2', has2, d2, f2, t2)):
        params = {'x': 1}
        if has:
            params['per_degree_design_bands'] = {DEG[d]: [{'f_min': f, 'f_max': f + 1}]}
            params[TYP[t]] = {DEG[d]: f}
        els.append({'uid': uid, 'type': 'Roadm', 'params': params})
    doc = _topo(els)
    ref = deepcopy(doc)
    y = convert_degree(convert_design_band(deepcopy(doc)))
    if convert_degree(convert_design_band(deepcopy(y))) != y:
        return False
    back = convert_back_degree(convert_back_design_band(deepcopy(y)))
    return back == ref


def loss_coef_roundtrip(freqs: List[int], vals: List[int], scalar: Optional[int]) -> bool:
    """
    pre: len(freqs) == len(vals) and 1 <= len(freqs) <= 3
    post: __return__
    """
    e1 = {'uid': 'f1', 'type': 'Fiber', 'params': {'length': 1, 'loss_coef': {'frequency': list(freqs), 'value': list(vals)}}}
    e2 = {'uid': 'f2', 'type': 'Fiber', 'params': {'length': 2, 'loss_coef': scalar}}
    doc = _topo([e1, e2])
    ref = deepcopy(doc)
    y = convert_loss_coeff_list(deepcopy(doc))
    per = y['elements'][0]['params'].get('loss_coef_per_frequency')
    ok_struct = per == [{'frequency': f, 'loss_coef_value': v} for f, v in zip(freqs, vals)]
    return ok_struct and convert_loss_coeff_list(deepcopy(y)) == y and convert_back_loss_coeff_list(deepcopy(y)) == ref


def delta_power_range_roundtrip(spans: List[Tuple[int, int, int]], sis: List[Tuple[int, int, int]]) -> bool:
    """
    pre: 1 <= len(spans) <= 2 and 1 <= len(sis) <= 2
    post: __return__
    """
    doc = {'Span': [{'type_variety': f's{i}', 'delta_power_range_db': list(t)} for i, t in enumerate(spans)],
           'SI': [{'type_variety': f'i{i}', 'power_range_db': list(t)} for i, t in enumerate(sis)]}
    ref = deepcopy(doc)
    y = convert_delta_power_range(deepcopy(doc))
    return convert_delta_power_range(deepcopy(y)) == y and convert_back_delta_power_range(deepcopy(y)) == ref


def nf_coef_roundtrip(coefs: List[List[int]]) -> bool:
    """
    pre: 1 <= len(coefs) <= 2 and all(1 <= len(c) <= 4 for c in coefs)
    post: __return__
    """
    doc = {'Edfa': [{'type_variety': f'a{i}', 'type_def': 'openroadm', 'nf_coef': list(c)} for i, c in enumerate(coefs)] +
                   [{'type_variety': 'b', 'type_def': 'fixed_gain', 'nf0': 5}]}
    ref = deepcopy(doc)
    y = convert_nf_coef(deepcopy(doc))
    return convert_nf_coef(deepcopy(y)) == y and convert_back_nf_coef(deepcopy(y)) == ref


def nf_coef_yang_order_irrelevant(coefs: List[int], perm: List[int]) -> bool:
    """
    pre: 2 <= len(coefs) <= 4 and sorted(perm) == list(range(len(coefs)))
    post: __return__
    """
    # a YANG list keyed by coef_order carries no meaning in its instance order
    doc = {'Edfa': [{'type_variety': 'a', 'type_def': 'openroadm', 'nf_coef': list(coefs)}]}
    y = convert_nf_coef(deepcopy(doc))
    lst = y['Edfa'][0]['nf_coef']
    y['Edfa'][0]['nf_coef'] = [lst[i] for i in perm]
    return convert_back_nf_coef(y) == doc


def nf_fit_coef_roundtrip(coefs: List[int], dgt: List[int]) -> bool:
    """
    pre: 1 <= len(coefs) <= 4 and len(dgt) <= 2
    post: __return__
    """
    doc = {'nf_fit_coeff': list(coefs), 'dgt': list(dgt), 'f_min': 1, 'f_max': 2}
    ref = deepcopy(doc)
    y = convert_nf_fit_coef(deepcopy(doc))
    return convert_nf_fit_coef(deepcopy(y)) == y and convert_back_nf_fit_coef(deepcopy(y)) == ref


def raman_coef_roundtrip(g0: List[int], offs: List[int], ref_f: int) -> bool:
    """
    pre: len(g0) == len(offs) and 1 <= len(g0) <= 3
    post: __return__
    """
    doc = _topo([{'uid': 'f', 'type': 'RamanFiber', 'params': {'raman_coefficient': {'g0': list(g0), 'frequency_offset': list(offs),
                                                                                  'reference_frequency': ref_f}}},
                 {'uid': 'g', 'type': 'Fiber', 'params': {'length': 3}}])
    ref = deepcopy(doc)
    y = convert_raman_coef(deepcopy(doc))
    return convert_raman_coef(deepcopy(y)) == y and convert_back_raman_coef(deepcopy(y)) == ref


def raman_efficiency_roundtrip(cr: List[int], offs: List[int]) -> bool:
    """
    pre: len(cr) == len(offs) and 1 <= len(cr) <= 3
    post: __return__
    """
    doc = {'RamanFiber': [{'type_variety': 'x', 'raman_efficiency': {'cr': list(cr), 'frequency_offset': list(offs)}}],
           'Fiber': [{'type_variety': 'y', 'dispersion': 1}]}
    ref = deepcopy(doc)
    y = convert_raman_efficiency(deepcopy(doc))
    return convert_raman_efficiency(deepcopy(y)) == y and convert_back_raman_efficiency(deepcopy(y)) == ref


def none_empty_roundtrip(a: Optional[int], b: Optional[str], c: List[int]) -> bool:
    """
    pre: len(c) <= 2 and (b is None or len(b) <= 2)
    post: __return__
    """
    doc = {'a': a, 'n': {'b': b, 'c': list(c)}, 'l': [{'a': a}]}
    ref = deepcopy(doc)
    y = convert_none_to_empty(deepcopy(doc))
    return convert_none_to_empty(deepcopy(y)) == y and convert_empty_to_none(deepcopy(y)) == ref


def int_precision_dispatch(key_idx: int, v: int) -> bool:
    """
    pre: 0 <= key_idx < 5 and -10**6 <= v <= 10**6
    post: __return__
    """
    # keys of the real precision dictionary, one per class: decimal64 (>0), integer (0), string/int64 (-1), unknown key
    keys = ['gain_target', 'loss_coef', 'N', 'M', 'uid'][key_idx:key_idx + 1]
    prec = ycu.gnpy_precision_dict()
    k = keys[0]
    y = convert_dict({k: v})
    back = convert_back(deepcopy(y))
    if prec.get(k, 2) > 0:
        # integers given for decimal leaves come back as the same number
        return isinstance(y[k], str) and back[k] == v and convert_dict(deepcopy(back)) == y
    if prec.get(k, 2) == 0:
        return back[k] == v and type(back[k]) is int and y[k] == v
    return back[k] == v and y[k] == v


def roadm_default_variety(has: List[bool]) -> bool:
    """
    pre: 1 <= len(has) <= 3
    post: __return__
    """
    doc = {'Roadm': [({'type_variety': f'v{i}', 'pmd': i} if h else {'pmd': i}) for i, h in enumerate(has)]}
    y = add_missing_default_type_variety(deepcopy(doc))
    # at most one entry may lack a name in a valid library; it becomes 'default'; named ones keep theirs; idempotent
    if sum(1 for h in has if not h) > 1:
        return True
    ok = all(('type_variety' in e) for e in y['Roadm']) and all(e['pmd'] == i for i, e in enumerate(y['Roadm']))
    ok = ok and all(y['Roadm'][i]['type_variety'] == f'v{i}' for i, h in enumerate(has) if h)
    return ok and add_missing_default_type_variety(deepcopy(y)) == y


def transceiver_aliases(names: List[str], base: str) -> bool:
    """
    pre: 1 <= len(names) <= 2 and all(1 <= len(n) <= 2 for n in names) and 1 <= len(base) <= 2
    pre: len(set(names + [base])) == len(names) + 1
    post: __return__
    """
    entry = {'type_variety': base, 'other_name': list(names), 'frequency': {'min': 191.3e12, 'max': 196.1e12},
             'mode': [{'format': 'm', 'baud_rate': 32e9, 'OSNR': 11, 'bit_rate': 100e9, 'roll_off': 0.15, 'tx_osnr': 40,
                       'min_spacing': 37.5e9, 'cost': 1}]}
    eq = _equipment_from_json({'Transceiver': [entry]}, {})
    trx = eq['Transceiver']
    return sorted(trx) == sorted(names + [base]) and all(trx[n].type_variety == n for n in trx) and \
        all(trx[n].mode == trx[base].mode and not hasattr(trx[n], 'other_name') for n in trx)


def edfa_aliases(names: List[str], base: str) -> bool:
    """
    pre: 1 <= len(names) <= 2 and all(1 <= len(n) <= 2 for n in names) and 1 <= len(base) <= 2
    pre: len(set(names + [base])) == len(names) + 1
    post: __return__
    """
    # an amplifier library entry with other_name aliases: every name is present, reports itself, and carries the same model
    entry = {'type_variety': base, 'other_name': list(names), 'type_def': 'fixed_gain', 'gain_flatmax': 21, 'gain_min': 20, 'p_max': 21,
             'nf0': 5.5, 'allowed_for_design': False}
    eq = _equipment_from_json({'Edfa': [entry]}, {})
    amps = eq['Edfa']
    return sorted(amps) == sorted(names + [base]) and all(amps[n].type_variety == n for n in amps) and \
        all(amps[n].gain_flatmax == 21 and amps[n].p_max == 21 and amps[n].type_def == 'fixed_gain' for n in amps)


def mode_aliases(names: List[str], base: str) -> bool:
    """
    pre: 1 <= len(names) <= 2 and all(1 <= len(n) <= 2 for n in names) and 1 <= len(base) <= 2
    pre: len(set(names + [base])) == len(names) + 1
    post: __return__
    """
    # a transceiver mode with other_name aliases: one mode per name, each reporting its own format, same parameters
    entry = {'type_variety': 'T', 'frequency': {'min': 191.3e12, 'max': 196.1e12},
             'mode': [{'format': base, 'other_name': list(names), 'baud_rate': 32e9, 'OSNR': 11, 'bit_rate': 100e9, 'roll_off': 0.15,
                       'tx_osnr': 40, 'min_spacing': 37.5e9, 'cost': 1}]}
    eq = _equipment_from_json({'Transceiver': [entry]}, {})
    modes = eq['Transceiver']['T'].mode
    fm = [m['format'] for m in modes]
    return sorted(fm) == sorted(names + [base]) and all('other_name' not in m for m in modes) and \
        all(m['baud_rate'] == 32e9 and m['OSNR'] == 11 and m['bit_rate'] == 100e9 for m in modes)
