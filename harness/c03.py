"""C03 — fibre NLI equals the GN-model closed form and obeys its scaling laws."""
import itertools
import math

import numpy as np

from harness.common import *      # noqa
from harness import common, elems
from symx.core import approx, SR

setup = common.setup

META = dict(
    level='model_checking',
    explanation='symx: real NliSolver.compute_nli/_gn_analytic/_psi/effective_length driven with symbolic powers, baud rates, carrier '
                'spacings and (frequency-flat) fibre alpha, beta2, gamma, length; asinh and exp are abstracted as functions identified '
                'by exact rational-function equality of their arguments (plus monotonicity facts), so that the code and the '
                'independently written eq. 120/123 of arXiv:1209.0394 reduce to a polynomial identity; real Fiber objects for the '
                'concrete-coefficient variant including a modify-and-recompute history',
    bounds=['k<=3 channels (6 thorough)', 'analytic GN method only', 'frequency-flat alpha/beta2/gamma for the closed form '
            '(gnpy\'s per-frequency extension is a modelling choice not fixed by the paper)'],
    assumptions=['floats as reals', 'asinh/exp abstraction: sound for unsat; the facts used are congruence, asinh increasing, exp>0',
                 'GGN methods (numerical integrals) are outside the technique'],
    stubs=['duck-typed fibre object returning symbolic alpha/beta2/gamma/length in the fully symbolic harness'],
)

SPM, XPM = 16.0 / 27.0, 2 * (16.0 / 27.0)
PI2 = float(np.pi ** 2)
TWOPI = float(2 * np.pi)


class FiberStub:
    class P:
        pass

    def __init__(self, alpha, beta2, gamma, length):
        self._a, self._b, self._g = alpha, beta2, gamma
        self.params = FiberStub.P()
        self.params.length = length

    def alpha(self, f):
        return self._a

    def beta2(self, f):
        return self._b

    def gamma(self, f):
        return self._g


def f_exp(x):
    return x.exp() if is_symbolic(x) else math.exp(x)


def f_asinh(x):
    return x.arcsinh() if is_symbolic(x) else math.asinh(x)


def f_abs(x):
    return abs(x)


def reference_eta(i, j, F, B, alpha, beta2, gamma, length):
    """eq. 120/123 of arXiv:1209.0394: eta_ij such that NLI_i = sum_j p_i p_j^2 eta_ij (frequency-flat coefficients)"""
    la = 1 / alpha
    leff = (1 - f_exp(-alpha * length)) / alpha
    b2 = f_abs(beta2)
    df = F[j] - F[i]
    a1 = f_asinh(PI2 * la * b2 * B[i] * (df + B[j] / 2))
    a2 = f_asinh(PI2 * la * b2 * B[i] * (df - B[j] / 2))
    psi = (a1 - a2) / 2 * leff ** 2 / (TWOPI * b2 * la)
    w = SPM if i == j else XPM
    return gamma ** 2 * w * psi / (B[j] ** 2)


def _symbolic_comb(ctx, k, uniform_baud):
    f0 = 193.0e12
    gaps = [ctx.real(f'gap{i}', lo=1e9, hi=2e11) for i in range(k - 1)]
    F = [f0]
    for g in gaps:
        F.append(F[-1] + g)
    if uniform_baud:
        b = ctx.real('baud', lo=1e9, hi=1e11)
        B = [b] * k
    else:
        B = [ctx.real(f'baud{i}', lo=1e9, hi=1e11) for i in range(k)]
    SW = [ctx.real(f'slot{i}', lo=1e9, hi=2e11) for i in range(k)]
    for i in range(k):
        ctx.assume(SW[i] >= B[i])
    for i in range(k - 1):
        ctx.assume(F[i] + SW[i] / 2 <= F[i + 1] - SW[i + 1] / 2)
    P = [ctx.real(f'p{i}', lo=0, lo_strict=True, hi=0.1) for i in range(k)]
    return F, B, SW, P


def _si(ctx, F, B, SW, P, order=None):
    from gnpy.core.info import SpectralInformation
    k = len(F)
    idx = list(order) if order is not None else list(range(k))
    z = np.zeros(k)
    pick = lambda a: arr([a[i] for i in idx])       # noqa
    lab = np.array([f'ch{i}' for i in idx], dtype=object)
    sym = ctx.mode == 'sym'
    mk = (lambda x: np.asarray(x, dtype=object)) if sym else (lambda x: x)
    return SpectralInformation(frequency=pick(F), baud_rate=pick(B), slot_width=pick(SW), pch=pick(P),
                               signal_ratio=mk(np.ones(k)), ase_ratio=mk(z.copy()), nli_ratio=mk(z.copy()), roll_off=z.copy(),
                               chromatic_dispersion=z.copy(), pmd=z.copy(), pdl=z.copy(), latency=z.copy(),
                               delta_pdb_per_channel=z.copy(), tx_osnr=z.copy(), tx_power=z.copy(), label=lab)


def _fibre_syms(ctx):
    alpha = ctx.real('alpha', lo=1e-6, hi=1e-3)
    # beta2 = +-|beta2| (both dispersion signs), |beta2| > 0
    b2abs = ctx.real('beta2_abs', lo=0, lo_strict=True, hi=1e-25)
    beta2 = ctx.choice('beta2_sign', [1, -1]) * b2abs
    gamma = ctx.real('gamma', lo=1e-5, hi=1e-2)
    length = ctx.real('length', lo=1, hi=2e5)
    return alpha, beta2, gamma, length


def h_closed_form(ctx, k, uniform_baud):
    from gnpy.core.science_utils import NliSolver
    symbolic_ctors(ctx)
    elems.set_sim_params('gn_model_analytic')
    F, B, SW, P = _symbolic_comb(ctx, k, uniform_baud)
    alpha, beta2, gamma, length = _fibre_syms(ctx)
    si = _si(ctx, F, B, SW, P)
    fib = FiberStub(arr([alpha] * k), arr([beta2] * k), arr([gamma] * k), length)
    nli = NliSolver.compute_nli(si, None, fib)
    eta = NliSolver._gn_analytic(si, fib)
    for i in range(k):
        ref = 0
        for j in range(k):
            e_ref = reference_eta(i, j, F, B, alpha, beta2, gamma, length)
            ctx.prove(f'eta[{i},{j}]=eq.120/123 ({"SPM 16/27" if i == j else "XPM 32/27"})', approx(eta[i][j], e_ref, 1e-12))
            ref = ref + P[i] * P[j] ** 2 * e_ref
        ctx.prove(f'nli[{i}]=sum_j p_i p_j^2 eta_ij (closed form)', approx(nli[i], ref, 1e-12))


def h_scaling(ctx, k):
    """cube law, structure NLI_i = sum_j p_i p_j^2 eta_ij with eta independent of the powers and of the other channels,
    eta_ij >= 0 (hence NLI >= 0, non-decreasing in every power and under adding a channel)"""
    from gnpy.core.science_utils import NliSolver
    symbolic_ctors(ctx)
    elems.set_sim_params('gn_model_analytic')
    F, B, SW, P = _symbolic_comb(ctx, k, False)
    alpha, beta2, gamma, length = _fibre_syms(ctx)
    kappa = ctx.real('kappa', lo=0, lo_strict=True, hi=100)
    fib = FiberStub(arr([alpha] * k), arr([beta2] * k), arr([gamma] * k), length)
    si = _si(ctx, F, B, SW, P)
    nli = NliSolver.compute_nli(si, None, fib)
    eta = NliSolver._gn_analytic(si, fib)
    si2 = _si(ctx, F, B, SW, [kappa * p for p in P])
    nli2 = NliSolver.compute_nli(si2, None, fib)
    eta2 = NliSolver._gn_analytic(si2, fib)
    if ctx.mode == 'sym':
        # asinh is increasing: stated for every pair of applications met (true facts about the real function); the order of
        # the two arguments is decided by the polynomial normaliser whenever their difference has a definite sign
        apps = ctx.fnapps.get('asinh', [])
        for (ra, a, va), (rb, b, vb) in itertools.combinations(apps, 2):
            c = a <= b
            if c is True:
                ctx.solver.add(va.t <= vb.t)
            elif c is False:
                ctx.solver.add(vb.t <= va.t)
            # pairs whose order depends on the inputs are not needed for the obligations below and are left out
    for i in range(k):
        ctx.prove(f'cube_law[{i}]', approx(nli2[i], kappa ** 3 * nli[i], 1e-12))
        s = 0
        for j in range(k):
            s = s + P[i] * P[j] ** 2 * eta[i][j]
            ctx.prove(f'eta_independent_of_power[{i},{j}]', approx(eta2[i][j], eta[i][j], 1e-12))
            ctx.prove(f'eta_nonnegative[{i},{j}]', ge(eta[i][j], 0))
        ctx.prove(f'nli=sum_j p_i p_j^2 eta_ij[{i}]', approx(nli[i], s, 1e-12))
    if k >= 2:
        # sub-comb without the last channel: same eta for the remaining pairs => adding a channel only adds p_i p_m^2 eta_im >= 0
        sub = _si(ctx, F[:-1], B[:-1], SW[:-1], P[:-1])
        fib_s = FiberStub(arr([alpha] * (k - 1)), arr([beta2] * (k - 1)), arr([gamma] * (k - 1)), length)
        eta_s = NliSolver._gn_analytic(sub, fib_s)
        nli_s = NliSolver.compute_nli(sub, None, fib_s)
        for i in range(k - 1):
            for j in range(k - 1):
                ctx.prove(f'eta_unchanged_by_adding_a_channel[{i},{j}]', approx(eta_s[i][j], eta[i][j], 1e-12))
            ctx.prove(f'adding_a_channel_adds_its_xpm_term[{i}]', approx(nli[i] - nli_s[i], P[i] * P[k - 1] ** 2 * eta[i][k - 1], 1e-12))


def z3_implies_le(a, b, va, vb):
    import z3
    return z3.And(z3.Implies(a.t <= b.t, va.t <= vb.t), z3.Implies(b.t <= a.t, vb.t <= va.t))


def h_order(ctx, k):
    """channels supplied in any order give identical per-channel NLI (mixed baud rates)"""
    from gnpy.core.science_utils import NliSolver
    symbolic_ctors(ctx)
    elems.set_sim_params('gn_model_analytic')
    F, B, SW, P = _symbolic_comb(ctx, k, False)
    # a slot width that fits every baud rate, so that a mix-up of baud rates is not caught by the construction checks
    for i in range(k):
        for j in range(k):
            ctx.assume(SW[i] >= B[j])
    alpha, beta2, gamma, length = _fibre_syms(ctx)
    fib = FiberStub(arr([alpha] * k), arr([beta2] * k), arr([gamma] * k), length)
    perm = ctx.choice('order', [p for p in itertools.permutations(range(k))][1:])
    ref = NliSolver.compute_nli(_si(ctx, F, B, SW, P), None, fib)
    got_si = _si(ctx, F, B, SW, P, order=perm)
    got = NliSolver.compute_nli(got_si, None, fib)
    for i in range(k):
        ctx.prove(f'sorted_after_construction[{i}]', got_si.label[i] == f'ch{i}')
        ctx.prove(f'baud_follows_carrier[{i}]', eq(got_si.baud_rate[i], B[i]))
        ctx.prove(f'nli_independent_of_supply_order[{i}]', approx(got[i], ref[i], 1e-12))


def h_real_fiber_history(ctx, variant, k):
    """real Fiber object with concrete coefficients, symbolic powers: NLI equals the closed form evaluated with the fibre's own
    alpha/beta2/gamma(per channel as gnpy defines them), also after the fibre parameters are changed and NLI recomputed"""
    from gnpy.core.science_utils import NliSolver
    symbolic_ctors(ctx)
    elems.set_sim_params('gn_model_analytic')
    v = elems.FIBER_VARIANTS[variant]
    _, els = build_elements([{'uid': 'fiber', 'type': 'Fiber', 'type_variety': v['type_variety'],
                              'params': dict({'length': v['length'], 'length_units': 'km', 'loss_coef': v['loss_coef'],
                                              'att_in': 0, 'con_in': 0, 'con_out': 0}, **v.get('extra', {}))}])
    fiber = els['fiber']
    bauds = [32e9, 64e9, 42e9, 32e9][:k]
    si = make_si(ctx, k, noisy=False, pmax=0.01, freqs=[193.0e12 + 100e9 * i for i in range(k)], baud_list=bauds,
                 slot_list=[75e9] * k)
    P = list(si._pch)
    F = [float(x) for x in si.frequency]

    def check(tag):
        nli = NliSolver.compute_nli(si, None, fiber)
        al = np.atleast_1d(fiber.alpha(np.array(F))) * np.ones(k)
        b2 = np.atleast_1d(fiber.beta2(np.array(F))) * np.ones(k)
        ga = np.atleast_1d(fiber.gamma(np.array(F))) * np.ones(k)
        L = fiber.params.length
        for i in range(k):
            ref = 0
            for j in range(k):
                # gnpy's per-frequency extension: cut channel's alpha and gamma, mean beta2 of cut and pump, pump's L_eff/L_a
                la = 1 / al[j]
                leff = (1 - math.exp(-al[j] * L)) / al[j]
                bb = abs((b2[i] + b2[j]) / 2)
                df = F[j] - F[i]
                psi = (math.asinh(PI2 * la * bb * bauds[i] * (df + bauds[j] / 2)) -
                       math.asinh(PI2 * la * bb * bauds[i] * (df - bauds[j] / 2))) / 2 * leff ** 2 / (TWOPI * bb * la)
                e = ga[i] ** 2 * (SPM if i == j else XPM) * psi / bauds[j] ** 2
                ref = ref + P[i] * P[j] ** 2 * float(e)
            ctx.prove(f'{tag}:nli[{i}]=closed_form(real fibre coefficients)', approx(nli[i], ref, 1e-9))
    check('fresh')
    fiber.params.length = fiber.params.length / 4          # history: modify the fibre, recompute
    check('after_length_change')
    fiber.params._gamma = fiber.params._gamma * 1.5 if hasattr(fiber.params, '_gamma') else None
    fiber.params._effective_area = fiber.params._effective_area / 1.5
    fiber.params._contrast = 0.5 * (299792458.0 / (2 * math.pi * fiber.params._ref_frequency * fiber.params._core_radius * fiber.params._n1) *
                                   math.exp(math.pi * fiber.params._core_radius ** 2 / fiber.params._effective_area)) ** 2
    check('after_effective_area_change')


def jobs(tier):
    ks = [2, 3] if tier == 'quick' else [2, 3, 4, 5, 6]
    js = []
    for k in ks:
        for uni in (True, False):
            js.append(dict(name=f'H3a:closed_form:k{k}:{"uniform" if uni else "mixed"}_baud', fn='h_closed_form',
                           params=dict(k=k, uniform_baud=uni), cost=5 ** k))
        js.append(dict(name=f'H3bcd:scaling_laws:k{k}', fn='h_scaling', params=dict(k=k), cost=6 ** k, budget_s=250))
        js.append(dict(name=f'H3e:supply_order:k{k}', fn='h_order', params=dict(k=k), cost=4 ** k))
    for var in ('ssmf80', 'negdisp60', 'perfreq_desc70'):
        js.append(dict(name=f'H3a:real_fiber_history:{var}:k3', fn='h_real_fiber_history', params=dict(variant=var, k=3), cost=20))
    for ws in (False, True):
        js.append(dict(name=f'H3f:fibre_coefficients:{"with" if ws else "no"}_slope', fn='h_fibre_coefficients', params=dict(with_slope=ws), cost=5))
    return js


def h_fibre_coefficients(ctx, with_slope):
    """real Fiber.alpha / beta2 / beta3 / chromatic_dispersion for symbolic loss coefficient, dispersion (and slope):
    alpha = loss/(10 log10 e); beta2 = -(c/f)^2 D(f) / (2 pi c); accumulated CD at the reference frequency = D * L"""
    from scipy.constants import c
    symbolic_ctors(ctx)
    loss = ctx.real('loss_coef_db_per_km', lo=0.1, hi=0.5)
    disp = ctx.real('dispersion_s_per_m2', lo=-3e-5, hi=3e-5)
    params = {'length': 80, 'length_units': 'km', 'loss_coef': loss, 'att_in': 0, 'con_in': 0, 'con_out': 0, 'dispersion': disp}
    slope = None
    if with_slope:
        slope = ctx.real('dispersion_slope', lo=0, hi=100)
        params['dispersion_slope'] = slope
    _, els = build_elements([{'uid': 'f', 'type': 'Fiber', 'type_variety': 'SSMF', 'params': params}])
    fiber = els['f']
    fref = float(fiber.params.ref_frequency)
    for f in (191.3e12, fref, 196.1e12):
        a = fiber.alpha(np.array([f]))
        a = a if not isinstance(a, np.ndarray) else a.reshape(-1)[0]
        ctx.prove(f'alpha = loss_coef / (10 log10 e) at {f * 1e-12:.1f} THz', approx(a, loss * 1e-3 / (10 * math.log10(math.e)), 1e-12))
        b2 = fiber.beta2(np.array([f]))
        b2 = b2 if not isinstance(b2, np.ndarray) else b2.reshape(-1)[0]
        if with_slope:
            d_f = disp + slope * (c / f - c / fref)
        else:
            d_f = (f / fref) ** 2 * disp
        ctx.prove(f'beta2 = -(c/f)^2 D(f) / (2 pi c) at {f * 1e-12:.1f} THz', approx(b2, -((c / f) ** 2 * d_f) / (2 * math.pi * c), 1e-12))
    # nonlinear coefficient: the fibre is declared by its gamma (effective area null, as the library leaves it for such types)
    # or by its effective area; values forked over a few representative ones (gamma_scaling involves a mode-overlap exponential)
    from math import pi
    how = ctx.choice('fibre declared by', ['gamma', 'effective_area'])
    val = ctx.choice('declared value', [0.001, 0.002, 1.27e-3] if how == 'gamma' else [50e-12, 83e-12, 125e-12])
    prm = dict(params)
    prm.update({'gamma': val, 'effective_area': None} if how == 'gamma' else {'effective_area': val})
    _, e2 = build_elements([{'uid': 'f', 'type': 'Fiber', 'type_variety': 'SSMF', 'params': prm}])
    g_ref = float(np.asarray(e2['f'].gamma(np.array([fref]))).reshape(-1)[0])
    want = val if how == 'gamma' else 2 * pi * 2.6e-20 / ((c / fref) * val)
    ctx.prove('gamma at the reference frequency is the declared one / follows from the declared effective area',
              abs(g_ref - want) <= 1e-9 * want, info=dict(how=how, declared=val, got=g_ref, want=want))
    cd = fiber.chromatic_dispersion(fref)
    cd = cd if not isinstance(cd, np.ndarray) else cd.reshape(-1)[0]
    ctx.prove('accumulated CD at the reference frequency = dispersion x length', approx(cd, disp * 80e3, 1e-9))
