"""C20 — spreadsheet inputs convert to the network and services they describe (CrossHair above the cell layer)."""
from harness import c18
from harness.common import is_symbolic, eq

META = dict(
    level='model_checking',
    explanation='CrossHair 0.0.110 (symbolic execution with z3) of the real parse_excel sanity logic, sanity_check, xls_to_json_data and '
                'its element/connection builders, Link/Eqpt defaulting, Request and Request_element on bounded symbolic in-memory sheets; '
                'counterexamples replayed un-instrumented',
    bounds=['2-4 sites typed ROADM/ILA/FUSED, 1-4 links with symbolic endpoints (incl. a dangling one) and distances, optional west '
            'distances', 'one A-M-B line with Eqpt rows (symbolic gains, ILA or ROADM in the middle)',
            'one Service row: symbolic spacing, power, channel count, bandwidth, mode, route of <= 3 names, strictness, <= 2 disjoint entries',
            'one Links row with each per-direction attribute filled in / empty / absent / symbolic real (0 included); one Eqpt row with every '
            'west cell filled in, zero or absent (324 patterns)',
            'route through in-line sites: line A - B(ILA) - [F(FUSED)] - [G(ILA)] - C, both directions, strict or loose'],
    assumptions=['the binary .xls/.xlsx readers (xlrd/openpyxl) and cell typing are outside the technique: rows are given in memory through '
                 'generic_open_workbook/get_sheet/parse_sheet', '"Not confirmed" = bounded bug hunting within the time box'],
    stubs=['convert.generic_open_workbook, convert.get_sheet, convert.parse_sheet -> in-memory rows'],
)

FUNCS = ['topology_conversion', 'eqpt_rows_land_on_the_right_amplifier', 'service_row']
c18.SAMPLES.update({
    'topology_conversion': "topology_conversion(3, 0, 1, 0, 0, 2, 0, 1, 50, 0, 1, 2, 60, 70, 0, 1, 1, 0, 0, 1, 1, 2, 0, 3)",
    'eqpt_rows_land_on_the_right_amplifier': "eqpt_rows_land_on_the_right_amplifier(20, 18, True, 15)",
    'service_row': "service_row(50, 0, 80, 100, 1, [2, 3], 2, [3])",
    'route_name_correction': "route_name_correction(0, 2, 1, 3, False)",
    'link_cable_ids': "link_cable_ids(1, 2, 0, 3, 1, 50, 70)",
})


def run_crosshair(job):
    return c18.run_crosshair(job)


def replay(rec):
    return c18.replay(rec)


def h_route_names(ctx, strict):
    """route-name correction of a Service row against the converted topology: every combination of <= 3 names from the
    vocabulary (site names, element names, unknown names, transceiver names), value-forked; the obligations are concrete"""
    from harness import c20_ch
    nr = ctx.choice('route length', [0, 1, 2, 3])
    idx = [ctx.choice(f'name {i}', list(range(len(c20_ch._VOCAB)))) for i in range(nr)]
    idx = (idx + [0, 0, 0])[:3]
    import contextlib
    import io
    with contextlib.redirect_stdout(io.StringIO()):
        ok = c20_ch.route_name_correction(idx[0], idx[1], idx[2], nr, strict)
    ctx.prove('route names translated in order, invalid ones dropped (loose) or refused (strict)', ok,
              info=dict(names=[c20_ch._VOCAB[i] for i in idx[:nr]], strict=strict))


def h_cable_ids(ctx, t_mid):
    """A -- M -- B with every combination of east/west cable ids (empty or one of two names) and east/west distances:
    value-forked; both directions present, endpoints exist, each fibre wired once, lengths per direction"""
    from harness import c20_ch
    ce0, cw0, ce1, cw1 = (ctx.choice(n, [0, 1, 2]) for n in ('east cable 1', 'west cable 1', 'east cable 2', 'west cable 2'))
    w0 = ctx.choice('west distance 1', [0, 70])
    ok = c20_ch.link_cable_ids(ce0, cw0, ce1, cw1, t_mid, 50, w0)
    ctx.prove('link rows convert to one fibre per direction, correctly named and wired', ok,
              info=dict(cables=(ce0, cw0, ce1, cw1), mid=c20_ch.TYPES[t_mid], west_distance=w0))


LINK_ATTRS = {
    # attribute: (default, east options, west options, key of the fibre params / element)   ('' = empty cell, None = no column)
    'distance': (80, [None, 50], [None, '', 70]),
    'lineic': (0.2, [None, 0.22], [None, '', 0.25]),
    'con_in': (None, [None, 0.5, 0], [None, '', 0, 0.3]),
    'con_out': (None, [None, 0.4, 0], [None, '', 0, 0.6]),
    'fiber': ('SSMF', [None, 'NZDF'], [None, '', 'LEAF']),
    'pmd': (None, [None, 0.04], [None, '', 0.08]),
    'cable': ('', [None, 'c1'], [None, '', 'c2']),
}


SYM_RANGE = {'lineic': (0, 1), 'con_in': (0, 3), 'con_out': (0, 3)}      # cells given as symbolic reals (0 included)


def _same(a, b):
    if is_symbolic(a) or is_symbolic(b):
        return a is b or (a is not None and b is not None and bool(eq(a, b)))
    return a == b


def h_link_attributes(ctx):
    """one Links row A-B: every per-direction attribute given / empty / absent / zero on each side (value-forked): the A->B fibre
    carries the east value (or the documented default), the B->A fibre the west value when the west cell is filled in - zero
    included - and the east one otherwise"""
    from math import sqrt
    from harness import c20_ch
    attr = ctx.choice('attribute', list(LINK_ATTRS))
    default, east_opts, west_opts = LINK_ATTRS[attr]
    e = ctx.choice('east cell', east_opts + (['symbolic'] if attr in SYM_RANGE else []))
    w = ctx.choice('west cell', west_opts + (['symbolic'] if attr in SYM_RANGE else []))
    if e == 'symbolic':
        e = ctx.real(f'east_{attr}', lo=SYM_RANGE[attr][0], hi=SYM_RANGE[attr][1])
    if w == 'symbolic':
        w = ctx.real(f'west_{attr}', lo=SYM_RANGE[attr][0], hi=SYM_RANGE[attr][1])
    row = {'from_city': 'A', 'to_city': 'B'}
    if e is not None:
        row[f'east_{attr}'] = e
    if w is not None:
        row[f'west_{attr}'] = w
    nodes = [{'city': 'A', 'node_type': 'ROADM'}, {'city': 'B', 'node_type': 'ROADM'}]
    data, err = c20_ch._convert({'Nodes': nodes, 'Links': [row]})
    info = dict(attribute=attr, east_cell=str(e), west_cell=str(w))
    ctx.prove('workbook converts', err is None, info=dict(info, error=repr(err)))
    if err is not None:
        return
    want_e = e if (is_symbolic(e) or e not in (None, '')) else default
    want_w = w if (is_symbolic(w) or w not in (None, '')) else want_e
    fib = {x['uid']: x for x in data['elements'] if x['type'] == 'Fiber'}
    ce, cw = (want_e, want_w) if attr == 'cable' else ('', '')
    east, west = fib.get(f'fiber (A → B)-{ce}'), fib.get(f'fiber (B → A)-{cw}')
    ctx.prove('one fibre per direction, named after its own cable', east is not None and west is not None and len(fib) == 2,
              info=dict(info, fibres=sorted(fib)))
    if east is None or west is None:
        return

    def got(f):
        if attr == 'distance':
            return f['params']['length']
        if attr == 'lineic':
            return f['params']['loss_coef']
        if attr in ('con_in', 'con_out'):
            return f['params'][attr]
        if attr == 'fiber':
            return f['type_variety']
        if attr == 'pmd':
            return f['params'].get('pmd_coef')
        return f['uid'].rsplit('-', 1)[1]

    def want(v):
        if attr == 'pmd':
            return v * 1e-12 / sqrt(80e3) if v else None
        return v
    ctx.prove('A->B fibre carries the east value or the default', _same(got(east), want(want_e)), info=dict(info, got=str(got(east)), want=str(want(want_e))))
    ctx.prove('B->A fibre carries the west value when filled in (zero included), else the east one', _same(got(west), want(want_w)),
              info=dict(info, got=str(got(west)), want=str(want(want_w))))


def h_eqpt_attributes(ctx):
    """one Eqpt row for the in-line site M of A-M-B: east cells all filled in, every west cell filled in (zero included) or
    absent: each value lands in the operational field of the amplifier of its own direction; absent west cells give the
    documented defaults, never the east values"""
    from harness import c20_ch
    east = {'amp_type': 'std_medium_gain', 'amp_gain': 20, 'amp_dp': 1, 'tilt_vs_wavelength': 0.5, 'att_out': 2, 'att_in': 0.3}
    west_opts = {'amp_type': [None, '', 'std_low_gain'], 'amp_gain': [None, 15, 0], 'amp_dp': [None, -1, 0],
                 'tilt_vs_wavelength': [None, -0.5], 'att_out': [None, 1, 0], 'att_in': [None, 0.7]}
    defaults = {'amp_type': '', 'amp_gain': None, 'amp_dp': None, 'tilt_vs_wavelength': None, 'att_out': None, 'att_in': 0}
    row = {'from_city': 'M', 'to_city': 'B'}
    row.update({f'east_{k}': v for k, v in east.items()})
    west = {}
    for k, opts in west_opts.items():
        v = ctx.choice(f'west_{k}', opts)
        west[k] = v
        if v is not None:
            row[f'west_{k}'] = v
    nodes = [{'city': 'A', 'node_type': 'ROADM'}, {'city': 'M', 'node_type': 'ILA'}, {'city': 'B', 'node_type': 'ROADM'}]
    links = [{'from_city': 'A', 'to_city': 'M', 'east_distance': 50}, {'from_city': 'M', 'to_city': 'B', 'east_distance': 60}]
    data, err = c20_ch._convert({'Nodes': nodes, 'Links': links, 'Eqpt': [row]})
    info = dict(west_cells=west)
    ctx.prove('workbook converts', err is None, info=dict(info, error=repr(err)))
    if err is not None:
        return
    el = {e['uid']: e for e in data['elements']}
    me, mw = el.get('east edfa in M to B'), el.get('west edfa in M to B')
    ctx.prove('both amplifiers of the in-line site exist', me is not None and mw is not None, info=info)
    if me is None or mw is None:
        return
    field = {'amp_gain': 'gain_target', 'amp_dp': 'delta_p', 'tilt_vs_wavelength': 'tilt_target', 'att_out': 'out_voa', 'att_in': 'in_voa'}
    ctx.prove('east amplifier: model and settings of the east cells', me.get('type_variety') == east['amp_type'] and
              all(me['operational'][f] == east[k] for k, f in field.items()), info=dict(info, got=me.get('operational')))
    wv = {k: (west[k] if west[k] not in (None, '') else defaults[k]) for k in west}
    ctx.prove('west amplifier: model of the west cell (none when empty)', mw.get('type_variety', '') == wv['amp_type'], info=dict(info, got=mw.get('type_variety')))
    ctx.prove('west amplifier: settings of the west cells (zero included), defaults when absent - never the east values',
              all(mw['operational'][f] == wv[k] for k, f in field.items()), info=dict(info, got=mw.get('operational'), want=wv))


def h_route_ila(ctx):
    """Service row whose route names an in-line amplifier site and then the next named site, on a line A - B(ILA) - [F(FUSED)] -
    [G(ILA)] - C given as sheets: the ILA name is translated to the amplifier of that site facing the named neighbour (fused
    sites in between are transparent), in both directions, strict or loose"""
    import contextlib
    import io
    import networkx as nx
    from harness import c20_ch
    from gnpy.core.elements import Edfa
    from gnpy.tools import convert as cv, service_sheet as ss
    middle = ctx.choice('sites between B and C', ['none', 'fused F', 'fused F + ILA G'])
    forward = ctx.choice('direction', ['A->C', 'C->A'])
    strict = ctx.choice('strict', [False, True])
    chain = ['A', 'B'] + {'none': [], 'fused F': ['F'], 'fused F + ILA G': ['F', 'G']}[middle] + ['C']
    kinds = {'A': 'ROADM', 'B': 'ILA', 'F': 'FUSED', 'G': 'ILA', 'C': 'ROADM'}
    rows = {'Nodes': [{'city': c, 'node_type': kinds[c], 'region': 'r', 'latitude': i, 'longitude': i} for i, c in enumerate(chain)],
            'Links': [{'from_city': a, 'to_city': b, 'east_distance': 50 + 5 * i} for i, (a, b) in enumerate(zip(chain[:-1], chain[1:]))]}
    src, dst = ('A', 'C') if forward == 'A->C' else ('C', 'A')
    # (the next in-line or ROADM site has to be named after an in-line site: that is how the direction is chosen)
    named = (['B'] + (['G'] if 'G' in chain else []) + [dst]) if forward == 'A->C' else ((['G'] if 'G' in chain else []) + ['B', dst])
    sh = c20_ch._Sheets(rows)
    sh.install()
    try:
        with contextlib.redirect_stdout(io.StringIO()):
            data = cv.xls_to_json_data('in-memory.xlsx')
            network = c20_ch._network_from_json(data, c20_ch._EQPT)
            req = ss.Request(request_id='1', source=src, destination=dst, trx_type='Voyager', mode='mode 1', spacing=50, power=0,
                             nb_channel=10, nodes_list=' | '.join(named), is_loose='no' if strict else 'yes', path_bandwidth=100)
            el = ss.Request_element(req, c20_ch._EQPT, False)
            try:
                out = ss.correct_xls_route_list('in-memory.xlsx', network, [el])
                err = None
            except Exception as e:      # noqa
                out, err = None, f'{type(e).__name__}: {e}'
    finally:
        sh.restore()
    info = dict(chain=chain, direction=forward, named=named, strict=strict)
    ctx.prove('a route naming existing sites in path order is accepted', err is None, info=dict(info, error=err))
    if err is not None:
        return
    by = {n.uid: n for n in network.nodes()}
    path = nx.shortest_path(network, by[f'roadm {src}'], by[f'roadm {dst}'])
    want = []
    for name in named:
        if name == dst:
            want.append(f'roadm {dst}')
        else:
            amps = [n.uid for n in path if isinstance(n, Edfa) and f'edfa in {name}' in n.uid]
            want += amps[:1]
    ctx.prove('every named in-line site is kept as its amplifier on the way to the next named site; the end site as its ROADM',
              out[0].nodes_list == want, info=dict(info, got=out[0].nodes_list, want=want))


def h_dangling_rows(ctx):
    """Links / Eqpt rows naming a site that is not in the Nodes sheet, as first or as second city: the workbook is refused with
    a topology error (never another exception, never accepted)"""
    from harness import c20_ch
    from gnpy.core.exceptions import NetworkTopologyError
    from gnpy.tools import convert as cv
    sheet = ctx.choice('sheet with the dangling row', ['Links', 'Eqpt'])
    which = ctx.choice('unknown site in column', ['first', 'second', 'none'])
    nodes = [{'city': c, 'node_type': 'ROADM'} for c in 'ABC']
    links = [{'from_city': 'A', 'to_city': 'B', 'east_distance': 50}, {'from_city': 'B', 'to_city': 'C', 'east_distance': 60}]
    eqpt = [{'from_city': 'A', 'to_city': 'B', 'east_amp_type': 'std_medium_gain', 'east_amp_gain': 20}]
    bad = {'first': ('ghost', 'A'), 'second': ('A', 'ghost')}.get(which)
    if bad:
        if sheet == 'Links':
            links.append({'from_city': bad[0], 'to_city': bad[1], 'east_distance': 40})
        else:
            eqpt.append({'from_city': bad[0], 'to_city': bad[1], 'east_amp_type': 'std_low_gain', 'east_amp_gain': 15})
    sh = c20_ch._Sheets({'Nodes': nodes, 'Links': links, 'Eqpt': eqpt})
    sh.install()
    try:
        cv.xls_to_json_data('in-memory.xlsx')
        err = None
    except NetworkTopologyError as e:
        err = 'topology'
    except Exception as e:      # noqa
        err = f'{type(e).__name__}: {e}'
    finally:
        sh.restore()
    info = dict(sheet=sheet, unknown_in=which, outcome=err)
    if which == 'none':
        ctx.prove('consistent workbook converts', err is None, info=info)
    else:
        ctx.prove('a row naming an unknown site is refused with a topology error', err == 'topology', info=info)


def h_service_rows_disjunctions(ctx):
    """read_service_sheet on three Service rows whose "disjoint from" cells form every pattern (none, independent pairs, chains,
    a row naming two others): one synchronisation group per non-empty cell, made of the row's own id followed by the ids it names"""
    import contextlib
    import io
    from harness import c20_ch
    from gnpy.tools import convert as cv, service_sheet as ss
    cells = {rid: ctx.choice(f'row {rid}: disjoint from', opts) for rid, opts in
             (('1', ['', '2', '3', '2 | 3']), ('2', ['', '3', '1']), ('3', ['', '1']))}
    ends = {'1': ('A', 'D'), '2': ('A', 'C'), '3': ('B', 'D')}
    rows = [ss.Request(request_id=rid, source=ends[rid][0], destination=ends[rid][1], trx_type='Voyager', mode='mode 1', spacing=50,
                       power=0, nb_channel=10, disjoint_from=cells[rid], nodes_list='', is_loose='yes', path_bandwidth=100)
            for rid in ('1', '2', '3')]
    sh = c20_ch._Sheets(c20_ch._ROWS)
    sh.install()
    orig = ss.parse_excel
    ss.parse_excel = lambda input_filename: list(rows)
    try:
        with contextlib.redirect_stdout(io.StringIO()):
            data = cv.xls_to_json_data('in-memory.xlsx')
            network = c20_ch._network_from_json(data, c20_ch._EQPT)
            out = ss.read_service_sheet('in-memory.xlsx', c20_ch._EQPT, network, 'in-memory.xlsx')
    finally:
        ss.parse_excel = orig
        sh.restore()
    want = [[rid] + [x.strip() for x in cells[rid].split('|')] for rid in ('1', '2', '3') if cells[rid]]
    got = [v['svec']['request-id-number'] for v in out.get('synchronization', [])]
    ctx.prove('one request per Service row', [r['request-id'] for r in out['path-request']] == ['1', '2', '3'])
    ctx.prove('one synchronisation group per non-empty "disjoint from" cell: own id followed by the ids it names', got == want,
              info=dict(cells=cells, got=got, want=want))


def setup():
    import logging
    logging.disable(logging.CRITICAL)


def jobs(tier):
    tmo = 40 if tier == 'quick' else 240
    extra = [dict(name=f'H20:route_name_correction:{"strict" if st else "loose"}', kind='symx', fn='h_route_names', params=dict(strict=st),
                  witness_every=25, budget_s=200, cost=50) for st in (False, True)]
    extra += [dict(name=f'H20:cable_ids:mid={t}', kind='symx', fn='h_cable_ids', params=dict(t_mid=i), witness_every=20, budget_s=200, cost=30)
              for i, t in enumerate(('ROADM', 'ILA', 'FUSED'))]
    extra += [dict(name='H20:link_attributes_per_direction', kind='symx', fn='h_link_attributes', witness_every=10, budget_s=200, cost=30),
              dict(name='H20:eqpt_attributes_per_direction', kind='symx', fn='h_eqpt_attributes', witness_every=20, budget_s=200, cost=40)]
    extra += [dict(name='H20:service_rows_disjunction_groups', kind='symx', fn='h_service_rows_disjunctions', witness_every=4, budget_s=100, cost=10)]
    extra += [dict(name='H20:dangling_rows', kind='symx', fn='h_dangling_rows', witness_every=2, budget_s=100, cost=10)]
    extra += [dict(name='H20:route_through_inline_sites', kind='symx', fn='h_route_ila', witness_every=4, budget_s=200, cost=30)]
    return extra + [dict(name=f'CH20:{f}', kind='crosshair', fn='run_crosshair', target=f, ch_module='harness.c20_ch', per_condition_timeout=tmo,
                 per_path_timeout=10, budget_s=tmo * 3 + 120, cost=tmo) for f in FUNCS]
