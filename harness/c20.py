"""C20 — spreadsheet inputs convert to the network and services they describe (CrossHair above the cell layer)."""
from harness import c18

META = dict(
    level='model_checking',
    explanation='CrossHair 0.0.110 (symbolic execution with z3) of the real parse_excel sanity logic, sanity_check, xls_to_json_data and '
                'its element/connection builders, Link/Eqpt defaulting, Request and Request_element on bounded symbolic in-memory sheets; '
                'counterexamples replayed un-instrumented',
    bounds=['2-4 sites typed ROADM/ILA/FUSED, 1-4 links with symbolic endpoints (incl. a dangling one) and distances, optional west '
            'distances', 'one A-M-B line with Eqpt rows (symbolic gains, ILA or ROADM in the middle)',
            'one Service row: symbolic spacing, power, channel count, bandwidth, mode, route of <= 3 names, strictness, <= 2 disjoint entries'],
    assumptions=['the binary .xls/.xlsx readers (xlrd/openpyxl) and cell typing are outside the technique: rows are given in memory through '
                 'generic_open_workbook/get_sheet/parse_sheet', '"Not confirmed" = bounded bug hunting within the time box'],
    stubs=['convert.generic_open_workbook, convert.get_sheet, convert.parse_sheet -> in-memory rows'],
)

FUNCS = ['topology_conversion', 'eqpt_rows_land_on_the_right_amplifier', 'service_row']
c18.SAMPLES.update({
    'topology_conversion': "topology_conversion(3, 0, 1, 0, 0, 2, 0, 1, 50, 0, 1, 2, 60, 70, 0, 1, 1, 0, 0, 1, 1, 2, 0, 3)",
    'eqpt_rows_land_on_the_right_amplifier': "eqpt_rows_land_on_the_right_amplifier(20, 18, True, 15)",
    'service_row': "service_row(50, 0, 80, 100, 1, [2, 3], 2, [3])",
    'route_name_correction': "route_name_correction(0, 2, 1, 3, False)",
    'link_cable_ids': "link_cable_ids(1, 2, 0, 3, 1, 50, 70)",
})


def run_crosshair(job):
    return c18.run_crosshair(job)


def replay(rec):
    return c18.replay(rec)


def h_route_names(ctx, strict):
    """route-name correction of a Service row against the converted topology: every combination of <= 3 names from the
    vocabulary (site names, element names, unknown names, transceiver names), value-forked; the obligations are concrete"""
    from harness import c20_ch
    nr = ctx.choice('route length', [0, 1, 2, 3])
    idx = [ctx.choice(f'name {i}', list(range(len(c20_ch._VOCAB)))) for i in range(nr)]
    idx = (idx + [0, 0, 0])[:3]
    import contextlib
    import io
    with contextlib.redirect_stdout(io.StringIO()):
        ok = c20_ch.route_name_correction(idx[0], idx[1], idx[2], nr, strict)
    ctx.prove('route names translated in order, invalid ones dropped (loose) or refused (strict)', ok,
              info=dict(names=[c20_ch._VOCAB[i] for i in idx[:nr]], strict=strict))


def h_cable_ids(ctx, t_mid):
    """A -- M -- B with every combination of east/west cable ids (empty or one of two names) and east/west distances:
    value-forked; both directions present, endpoints exist, each fibre wired once, lengths per direction"""
    from harness import c20_ch
    ce0, cw0, ce1, cw1 = (ctx.choice(n, [0, 1, 2]) for n in ('east cable 1', 'west cable 1', 'east cable 2', 'west cable 2'))
    w0 = ctx.choice('west distance 1', [0, 70])
    ok = c20_ch.link_cable_ids(ce0, cw0, ce1, cw1, t_mid, 50, w0)
    ctx.prove('link rows convert to one fibre per direction, correctly named and wired', ok,
              info=dict(cables=(ce0, cw0, ce1, cw1), mid=c20_ch.TYPES[t_mid], west_distance=w0))


def setup():
    import logging
    logging.disable(logging.CRITICAL)


def jobs(tier):
    tmo = 40 if tier == 'quick' else 240
    extra = [dict(name=f'H20:route_name_correction:{"strict" if st else "loose"}', kind='symx', fn='h_route_names', params=dict(strict=st),
                  witness_every=25, budget_s=200, cost=50) for st in (False, True)]
    extra += [dict(name=f'H20:cable_ids:mid={t}', kind='symx', fn='h_cable_ids', params=dict(t_mid=i), witness_every=20, budget_s=200, cost=30)
              for i, t in enumerate(('ROADM', 'ILA', 'FUSED'))]
    return extra + [dict(name=f'CH20:{f}', kind='crosshair', fn='run_crosshair', target=f, ch_module='harness.c20_ch', per_condition_timeout=tmo,
                 per_path_timeout=10, budget_s=tmo * 3 + 120, cost=tmo) for f in FUNCS]
