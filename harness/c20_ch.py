"""C20 CrossHair harnesses: the real spreadsheet converters above the cell layer (the binary .xls/.xlsx readers are replaced by
in-memory rows), on bounded symbolic sheets.  Each function returns True when the property holds."""
from typing import List, Optional, Tuple

from gnpy.core.exceptions import NetworkTopologyError, ServiceError
from gnpy.tools import convert as cv
from gnpy.tools import service_sheet as ss

CITIES = ['A', 'B', 'C', 'D', 'E']
TYPES = ['ROADM', 'ILA', 'FUSED']


class _Sheets:
    """in-memory workbook: rows per sheet, handed to parse_excel through the three functions it uses to read cells"""
    def __init__(self, rows):
        self.rows = rows

    def install(self):
        self.saved = (cv.generic_open_workbook, cv.get_sheet, cv.parse_sheet)
        cv.generic_open_workbook = lambda filename: (self, True)

        def get_sheet(wb, name, is_xlsx):
            if name not in self.rows:
                raise KeyError(name)
            return name
        cv.get_sheet = get_sheet
        cv.parse_sheet = lambda sheet, is_xlsx, headers, header_line, start_line, column: [dict(r) for r in self.rows[sheet]]

    def restore(self):
        cv.generic_open_workbook, cv.get_sheet, cv.parse_sheet = self.saved


def _convert(rows):
    sh = _Sheets(rows)
    sh.install()
    try:
        return cv.xls_to_json_data('in-memory.xlsx'), None
    except NetworkTopologyError as e:
        return None, e
    finally:
        sh.restore()


def topology_conversion(n: int, t0: int, t1: int, t2: int, t3: int, nl: int, a0: int, b0: int, d0: int, w0: int,
                        a1: int, b1: int, d1: int, w1: int, a2: int, b2: int, d2: int, w2: int, a3: int, b3: int,
                        ce0: int, cw0: int, ce1: int, cw1: int) -> bool:
    """
    pre: 2 <= n <= 4 and 0 <= t0 <= 2 and 0 <= t1 <= 2 and 0 <= t2 <= 2 and 0 <= t3 <= 2 and 1 <= nl <= 4
    pre: 0 <= a0 <= n and 0 <= b0 <= n and a0 != b0 and 0 <= a1 <= n and 0 <= b1 <= n and a1 != b1
    pre: 0 <= a2 <= n and 0 <= b2 <= n and a2 != b2 and 0 <= a3 <= n and 0 <= b3 <= n and a3 != b3
    pre: 1 <= d0 <= 500 and 1 <= d1 <= 500 and 1 <= d2 <= 500 and 0 <= w0 <= 500 and 0 <= w1 <= 500 and 0 <= w2 <= 500
    pre: 0 <= ce0 <= 3 and 0 <= cw0 <= 3 and 0 <= ce1 <= 3 and 0 <= cw1 <= 3
    post: __return__
    """
    types = [t0, t1, t2, t3][:n]
    cable_e = [ce0, ce1, 0, 0][:nl]
    cable_w = [cw0, cw1, 0, 0][:nl]
    links = [(a0, b0, d0), (a1, b1, d1), (a2, b2, d2), (a3, b3, 80)][:nl]
    west = [w0, w1, w2, 0][:nl]
    n = len(types)
    nodes = [{'city': CITIES[i], 'region': 'r', 'latitude': i, 'longitude': i, 'node_type': TYPES[t]} for i, t in enumerate(types)]
    lrows = []
    for k, ((a, b, d), w) in enumerate(zip(links, west)):
        row = {'from_city': CITIES[a], 'to_city': CITIES[b], 'east_distance': d}
        if w:
            row['west_distance'] = w       # 0 = empty cell: west defaults to east
        if cable_e[k]:
            row['east_cable'] = f'cab{cable_e[k]}'
        if cable_w[k]:
            row['west_cable'] = f'cab{cable_w[k]}'
        lrows.append(row)
    data, err = _convert({'Nodes': nodes, 'Links': lrows})
    # ---- what the sheets describe
    dangling = any(a == n or b == n for a, b, _ in links)
    pairs = [frozenset((a, b)) for a, b, _ in links]
    duplicate = len(set(pairs)) != len(pairs)
    degree = {i: sum(1 for p in pairs if i in p) for i in range(n)}
    unreferenced = any(degree[i] == 0 for i in range(n))
    if dangling or duplicate or unreferenced:
        return err is not None             # rejected with a topology error
    if err is not None:
        return False                        # a consistent workbook must convert
    # site kinds after the documented correction: an in-line site (ILA/FUSED) is only possible with exactly two links
    kind = {i: ('ROADM' if (types[i] == 0 or degree[i] != 2) else TYPES[types[i]]) for i in range(n)}
    uids = [e['uid'] for e in data['elements']]
    if len(set(uids)) != len(uids):
        return False
    for i in range(n):
        c = CITIES[i]
        has_roadm = f'roadm {c}' in uids and f'trx {c}' in uids
        has_fused = f'west fused spans in {c}' in uids and f'east fused spans in {c}' in uids
        has_ila = f'west edfa in {c}' in uids and f'east edfa in {c}' in uids
        if (kind[i] == 'ROADM') != has_roadm or (kind[i] == 'FUSED') != has_fused or (kind[i] == 'ILA') != has_ila:
            return False
    fib = {e['uid']: e for e in data['elements'] if e['type'] == 'Fiber'}
    if len(fib) != 2 * len(links):
        return False
    for k, ((a, b, d), w) in enumerate(zip(links, west)):
        ce = f'cab{cable_e[k]}' if cable_e[k] else ''
        cw = f'cab{cable_w[k]}' if cable_w[k] else ce           # west defaults to east
        east = fib.get(f'fiber ({CITIES[a]} → {CITIES[b]})-{ce}')
        back = fib.get(f'fiber ({CITIES[b]} → {CITIES[a]})-{cw}')
        if east is None or back is None:
            return False
        if east['params']['length'] != d or back['params']['length'] != (w if w else d):
            return False
        if east['params']['length_units'] != 'km' or east['type_variety'] != 'SSMF' or back['type_variety'] != 'SSMF':
            return False
    ends = set(uids)
    ins = {u: 0 for u in uids}
    outs = {u: 0 for u in uids}
    for c in data['connections']:
        if c['from_node'] not in ends or c['to_node'] not in ends:
            return False                    # every connection endpoint exists
        outs[c['from_node']] += 1
        ins[c['to_node']] += 1
    for u in fib:
        if ins[u] != 1 or outs[u] != 1:     # both directions wired: every fibre has one predecessor and one successor
            return False
    return True


def link_cable_ids(ce0: int, cw0: int, ce1: int, cw1: int, t_mid: int, d0: int, w0: int) -> bool:
    """
    pre: 0 <= ce0 <= 3 and 0 <= cw0 <= 3 and 0 <= ce1 <= 3 and 0 <= cw1 <= 3 and 0 <= t_mid <= 2 and 1 <= d0 <= 300 and 0 <= w0 <= 300
    post: __return__
    """
    # A -- M -- B with cable ids per direction (0 = empty cell; west defaults to east): both directions present, every
    # connection endpoint exists, each fibre wired once in and once out, lengths per direction
    return topology_conversion(3, 0, t_mid, 0, 0, 2, 0, 1, d0, w0, 2, 1, 60, 0, 0, 1, 1, 0, 0, 1, ce0, cw0, ce1, cw1)


def eqpt_rows_land_on_the_right_amplifier(gain_ab: int, gain_ba: int, mid_is_ila: bool, west_gain: int) -> bool:
    """
    pre: 1 <= gain_ab <= 30 and 1 <= gain_ba <= 30 and 0 <= west_gain <= 30
    post: __return__
    """
    # A (ROADM) -- M (ILA or ROADM) -- B (ROADM); Eqpt rows give the amplifiers of A facing M and of M facing its neighbours
    nodes = [{'city': 'A', 'node_type': 'ROADM'}, {'city': 'M', 'node_type': 'ILA' if mid_is_ila else 'ROADM'}, {'city': 'B', 'node_type': 'ROADM'}]
    links = [{'from_city': 'A', 'to_city': 'M', 'east_distance': 50}, {'from_city': 'M', 'to_city': 'B', 'east_distance': 60}]
    row_m = {'from_city': 'M', 'to_city': 'B', 'east_amp_type': 'std_medium_gain', 'east_amp_gain': gain_ab}
    if west_gain:
        row_m.update(west_amp_type='std_low_gain', west_amp_gain=west_gain)
    eqpt = [{'from_city': 'A', 'to_city': 'M', 'east_amp_type': 'std_medium_gain', 'east_amp_gain': gain_ba}, row_m]
    data, err = _convert({'Nodes': nodes, 'Links': links, 'Eqpt': eqpt})
    if err is not None:
        return False
    el = {e['uid']: e for e in data['elements']}
    a = el.get('east edfa in A to M')
    m_east = el.get('east edfa in M to B')
    m_west = el.get('west edfa in M to B')
    if a is None or m_east is None or m_west is None:
        return False
    if a['operational']['gain_target'] != gain_ba or m_east['operational']['gain_target'] != gain_ab:
        return False
    # the amplifier named in the row faces the named neighbour: its output goes to the fibre towards that neighbour
    cx = {(c['from_node'], c['to_node']) for c in data['connections']}
    if ('east edfa in A to M', 'fiber (A → M)-') not in cx or ('east edfa in M to B', 'fiber (M → B)-') not in cx:
        return False
    if west_gain:
        if m_west['operational']['gain_target'] != west_gain or m_west.get('type_variety') != 'std_low_gain':
            return False
    # the west amplifier of M receives the fibre coming FROM the named neighbour
    return ('fiber (B → M)-', 'west edfa in M to B') in cx


class _Eq:
    class T:
        mode = [{'format': 'mode 1'}, {'format': 'mode 2'}]
    data = {'Transceiver': {'Voyager': T}}

    def __getitem__(self, k):
        return self.data[k]


def service_row(spacing_ghz: int, power_dbm: Optional[int], nb_channel: Optional[int], bw_gbps: Optional[int], mode_idx: int,
                route: List[int], loose: int, disjoint: List[int]) -> bool:
    """
    pre: 1 <= spacing_ghz <= 200 and (power_dbm is None or -30 <= power_dbm <= 10) and (nb_channel is None or 1 <= nb_channel <= 200)
    pre: (bw_gbps is None or 0 <= bw_gbps <= 10000) and 0 <= mode_idx <= 2 and len(route) <= 3 and all(0 <= r <= 4 for r in route)
    pre: 0 <= loose <= 2 and len(disjoint) <= 2 and all(1 <= d <= 9 for d in disjoint)
    post: __return__
    """
    mode = [None, 'mode 1', 'mode 2'][mode_idx]
    names = [f'roadm {CITIES[r]}' for r in route]
    is_loose = ['', 'yes', 'no'][loose]
    req = ss.Request(request_id='7', source='A', destination='B', trx_type='Voyager', mode=mode, spacing=spacing_ghz, power=power_dbm,
                     nb_channel=nb_channel, disjoint_from=' | '.join(str(d) for d in disjoint), nodes_list=' | '.join(names),
                     is_loose=is_loose, path_bandwidth=bw_gbps)
    el = ss.Request_element(req, _Eq(), False)
    pr, sync = el.json
    te = pr['path-constraints']['te-bandwidth']
    ok = pr['request-id'] == '7' and pr['source'] == 'trx A' and pr['destination'] == 'trx B' and pr['bidirectional'] is False
    ok = ok and te['trx_type'] == 'Voyager' and te['trx_mode'] == mode
    ok = ok and te['spacing'] == spacing_ghz * 1e9 and te['max-nb-of-channel'] == nb_channel
    ok = ok and te['path_bandwidth'] == (bw_gbps * 1e9 if bw_gbps is not None else 0)
    if power_dbm is None:
        ok = ok and te['output-power'] is None
    else:
        want = 10 ** (power_dbm / 10) * 1e-3
        ok = ok and abs(te['output-power'] - want) <= 1e-12 * want
    hop = 'STRICT' if is_loose == 'no' else 'LOOSE'
    if names:
        objs = pr['explicit-route-objects']['route-object-include-exclude']
        ok = ok and [o['num-unnum-hop']['node-id'] for o in objs] == names
        ok = ok and all(o['num-unnum-hop']['hop-type'] == hop for o in objs)
        if len(set(names)) == len(names):
            ok = ok and [o['index'] for o in objs] == list(range(len(names)))
    else:
        ok = ok and 'explicit-route-objects' not in pr
    if disjoint:
        ok = ok and sync is not None and sync['synchronization-id'] == '7' and \
            sync['svec']['request-id-number'] == ['7'] + [str(d) for d in disjoint]
    else:
        ok = ok and sync is None
    return ok


from pathlib import Path as _Path
from gnpy.tools.json_io import load_equipment as _load_equipment, network_from_json as _network_from_json
_EQPT = _load_equipment(_Path('/repo/gnpy/example-data/eqpt_config.json'))
_ROWS = {'Nodes': [{'city': c, 'node_type': 'ROADM', 'region': 'r', 'latitude': i, 'longitude': i} for i, c in enumerate('ABCD')],
         'Links': [{'from_city': 'A', 'to_city': 'B', 'east_distance': 50}, {'from_city': 'B', 'to_city': 'C', 'east_distance': 60},
                   {'from_city': 'C', 'to_city': 'D', 'east_distance': 70}, {'from_city': 'A', 'to_city': 'D', 'east_distance': 40}]}
_VOCAB = ['B', 'C', 'X', 'trx B', 'Y', 'roadm C', 'D']


def route_name_correction(r0: int, r1: int, r2: int, nr: int, strict: bool) -> bool:
    """
    pre: 0 <= r0 <= 6 and 0 <= r1 <= 6 and 0 <= r2 <= 6 and 0 <= nr <= 3
    post: __return__
    """
    # Service row A -> D whose route column lists spreadsheet names: site names are translated to the ROADM element names,
    # unknown or unsupported names are dropped from a loose route (rejected in a strict one); order and the rest are kept
    names = [_VOCAB[r] for r in (r0, r1, r2)][:nr]
    sh = _Sheets(_ROWS)
    sh.install()
    try:
        data = cv.xls_to_json_data('in-memory.xlsx')
        network = _network_from_json(data, _EQPT)
        req = ss.Request(request_id='1', source='A', destination='D', trx_type='Voyager', mode='mode 1', spacing=50, power=0,
                         nb_channel=10, nodes_list=' | '.join(names), is_loose='no' if strict else 'yes', path_bandwidth=100)
        el = ss.Request_element(req, _EQPT, False)
        try:
            out = ss.correct_xls_route_list('in-memory.xlsx', network, [el])
            err = None
        except ServiceError as e:
            out, err = None, e
    finally:
        sh.restore()
    valid = {'B': 'roadm B', 'C': 'roadm C', 'D': 'roadm D', 'roadm C': 'roadm C'}
    invalid = [x for x in names if x not in valid]
    if strict and invalid:
        return err is not None
    if err is not None:
        return False
    want = [valid[x] for x in names if x in valid]
    return out[0].nodes_list == want
