"""C15 — every designed network yields a consistent OMS partition and spectrum map."""
import itertools
import time

from harness.common import *      # noqa
from harness import common
from harness.c14 import Cell, _codes, FREE_C, OCC_C, UNU_C
from symx import core
from symx.core import SR, SI

setup = common.setup

META = dict(
    level='model_checking',
    explanation='symx: real Bitmap/insert_left/insert_right/align_grids on maps with symbolic cells and enumerated extents; real '
                'create_oms_bitmap + OMS.update_spectrum + find_common_range with symbolic band edges (slot numbers as symbolic integers, '
                'value-forked where used as list lengths); real build_oms_list/reversed_oms on generated 3-ROADM meshes with symbolic '
                'per-line amplifier bands and optional unidirectional lines; bit-precise fp-lemmas (z3 + cvc5, QF_BVFP) for '
                'frequency_to_n / nvalue_to_frequency / slots_to_m / mvalue_to_slots translated from the current source',
    bounds=['slot numbers within [-3, 3] (quick) / [-6, 6] (thorough) around 193.1 THz for the maps (network range, 1-2 amplifier bands per OMS, C-only / L-only / '
            'C+L / narrower)', '3 ROADM sites, lines present or absent per direction (Edfa lines, spliced lines, Multiband_amplifier lines)', 'fp-lemmas: |n| <= 4096, 1 <= m <= 512, binary64'],
    assumptions=['frequencies are on the 6.25 GHz grid (band edges given as slot numbers), float rounding of the index conversions '
                 'covered by the fp-lemmas', 'amplifier bands of one element do not overlap'],
    stubs=[],
)

G = 6.25e9


def nf(n):
    """frequency of slot number n (python int, SI or float) on the 6.25 GHz grid"""
    return 193.1e12 + n * G


# ---------------------------------------------------------------------------------------------- H15a align_grids

def h_align(ctx, n_oms):
    """maps of different extent are aligned: same range everywhere, every slot index unique and contiguous, every existing
    cell stays at its slot number, added cells are not free"""
    from gnpy.topology.spectrum_assignment import OMS, BitmapValue, align_grids, nvalue_to_frequency
    inv = {v: k for k, v in _codes().items()}
    oms_list, before = [], []
    for i in range(n_oms):
        lo = ctx.choice(f'n_min{i}', [-3, -2, -1, 0])
        hi = ctx.choice(f'n_max{i}', [0, 1, 2])
        cells = []
        for n in range(lo, hi + 1):
            v = ctx.int(f'oms{i}_slot{n}', 0, 2)
            cells.append(inv[v] if ctx.mode == 'conc' else Cell(v.t))
        o = OMS(oms_id=i, el_id_list=[], el_list=[])
        o.update_spectrum(nvalue_to_frequency(lo), nvalue_to_frequency(hi), guardband=G, grid=G, existing_spectrum=list(cells))
        ctx.prove(f'oms{i}: extents as constructed', (o.spectrum_bitmap.n_min, o.spectrum_bitmap.n_max) == (lo, hi))
        oms_list.append(o)
        before.append({n: c for n, c in zip(range(lo, hi + 1), cells)})
    align_grids(oms_list)
    lo_all = min(min(b) for b in before)
    hi_all = max(max(b) for b in before)
    for i, o in enumerate(oms_list):
        sb = o.spectrum_bitmap
        ctx.prove(f'oms{i}: common range', (sb.n_min, sb.n_max) == (lo_all, hi_all), info=dict(n_min=sb.n_min, n_max=sb.n_max))
        ctx.prove(f'oms{i}: slot indices contiguous and unique', sb.freq_index == list(range(lo_all, hi_all + 1)),
                  info=dict(freq_index=list(sb.freq_index)))
        ctx.prove(f'oms{i}: one cell per index', len(sb.bitmap) == len(sb.freq_index))
        if sb.freq_index != list(range(lo_all, hi_all + 1)) or len(sb.bitmap) != len(sb.freq_index):
            continue
        for n in range(lo_all, hi_all + 1):
            cell = sb.bitmap[sb.geti(n)]
            if n in before[i]:
                ctx.prove(f'oms{i}: existing occupancy stays at its slot', cell is before[i][n], info=dict(slot=n))
            else:
                ctx.prove(f'oms{i}: slots outside the original extent are not free', cell is not BitmapValue.FREE, info=dict(slot=n))
            ctx.prove(f'oms{i}: getn/geti consistent', sb.getn(sb.geti(n)) == n)


# ------------------------------------------------------------------------------------- H15b create_oms_bitmap

def _amp(uid, bands, eqpt):
    """real Edfa (single band) or Multiband_amplifier (two bands) element whose band edges are the given frequencies"""
    from gnpy.core.elements import Edfa, Multiband_amplifier
    _, els = build_elements([{'uid': uid, 'type': 'Edfa', 'type_variety': 'std_medium_gain',
                              'operational': {'gain_target': 20.0, 'tilt_target': 0, 'out_voa': 0.0}}], eqpt)
    amp = els[uid]
    amp.params.bands = [dict(b) for b in bands]
    amp.params.f_min, amp.params.f_max = bands[0]['f_min'], bands[-1]['f_max']
    return amp


def h_oms_bitmap(ctx, shape, R=8):
    """create_oms_bitmap + update_spectrum: construction succeeds, the map covers the network range, FREE exactly inside the
    band(s) common to the OMS amplifiers, UNUSABLE elsewhere"""
    from gnpy.core.exceptions import SpectrumError
    from gnpy.topology.spectrum_assignment import OMS, BitmapValue, create_oms_bitmap
    eqpt = equipment()
    lo = ctx.int('net_n_min', -R, -R + 1)
    hi = ctx.int('net_n_max', R - 1, R)

    def band(tag, lo_b=None, hi_b=None):
        a = ctx.int(f'{tag}_n_min', -R, R)
        b = ctx.int(f'{tag}_n_max', -R, R)
        ctx.assume(core.And(a >= lo, b <= hi, a < b))
        return a, b
    if shape == 'one_band_two_amps':
        a1, b1 = band('amp1')
        a2, b2 = band('amp2')
        amps = [[(a1, b1)], [(a2, b2)]]
    elif shape == 'two_bands':
        a1, b1 = band('amp1_low')
        a2, b2 = band('amp1_high')
        ctx.assume(b1 + 1 < a2)
        a3, b3 = band('amp2_low')
        a4, b4 = band('amp2_high')
        ctx.assume(b3 + 1 < a4)
        amps = [[(a1, b1), (a2, b2)], [(a3, b3), (a4, b4)]]
    else:   # two-band amplifier followed by a single-band one
        a1, b1 = band('amp1_low')
        a2, b2 = band('amp1_high')
        ctx.assume(b1 + 1 < a2)
        a3, b3 = band('amp2')
        amps = [[(a1, b1), (a2, b2)], [(a3, b3)]]
    el_list = [_amp(f'amp{i}', [{'f_min': nf(a), 'f_max': nf(b)} for a, b in bands], eqpt) for i, bands in enumerate(amps)]
    oms = OMS(oms_id=0, el_id_list=[e.uid for e in el_list], el_list=el_list)
    f_min, f_max = nf(lo), nf(hi)
    try:
        bitmap = create_oms_bitmap(oms, eqpt, f_min=f_min, f_max=f_max, grid=G)
        err = None
    except (ValueError, IndexError) as e:
        bitmap, err = None, e
    # independent oracle: slot n usable iff every amplifier has a band containing n (intersection of band sets)
    lo_c, hi_c = int(lo), int(hi)

    def common(n):
        return all(any(int(a) <= n <= int(b) for a, b in bands) for bands in amps)
    usable = [n for n in range(lo_c, hi_c + 1) if common(n)]
    # bands whose intersection is a single slot or empty are degenerate (find_common_range requires f_min < f_max)
    runs = []
    for n in usable:
        if runs and runs[-1][-1] == n - 1:
            runs[-1].append(n)
        else:
            runs.append([n])
    if not usable or any(len(r) < 2 for r in runs):
        ctx.prove('degenerate common band: not ruled by the property', True)
        return
    ctx.prove('map can be created', err is None, info=dict(error=repr(err)))
    if err is not None:
        return
    try:
        oms.update_spectrum(f_min, f_max, guardband=G, grid=G, existing_spectrum=bitmap)
        err = None
    except SpectrumError as e:
        err = e
    ctx.prove('map is consistent with the network range (update_spectrum accepts it)', err is None,
              info=dict(error=repr(err), length=len(bitmap), n_min=lo_c, n_max=hi_c, amps=[[(int(a), int(b)) for a, b in x] for x in amps]))
    if err is not None:
        return
    sb = oms.spectrum_bitmap
    ctx.prove('map covers the contiguous slot range of the network', (sb.n_min, sb.n_max) == (lo_c, hi_c) and
              sb.freq_index == list(range(lo_c, hi_c + 1)) and len(sb.bitmap) == hi_c - lo_c + 1)
    for n in range(lo_c, hi_c + 1):
        cell = sb.bitmap[n - lo_c]
        if n in usable:
            ctx.prove('slot inside the common band(s) is usable', cell is BitmapValue.FREE, info=dict(slot=n, got=str(cell)))
        else:
            ctx.prove('slot outside the common band(s) is unusable', cell is BitmapValue.UNUSABLE, info=dict(slot=n, got=str(cell)))


# ---------------------------------------------------------------------------------------------- H15c partition

def h_partition(ctx, modes=('both', 'both', 'both'), widths=(-8, -4, 4, 8), multiband=False):
    """build_oms_list on a generated 3-ROADM network: every line element in exactly one OMS, each OMS runs ROADM to ROADM in
    path order, opposite directions paired (None when there is no opposite line), all maps cover the same range"""
    from gnpy.core.elements import Roadm, Transceiver, Edfa, Fiber, Fused
    from gnpy.topology.spectrum_assignment import build_oms_list
    from gnpy.core.elements import Multiband_amplifier
    eqpt = equipment('eqpt_config_multiband.json') if multiband else equipment()
    sites = ['A', 'B', 'C']
    pairs = [('A', 'B'), ('B', 'C'), ('A', 'C')]
    els, cx = [], []
    lines = []
    for s in sites:
        els += [{'uid': f'trx {s}', 'type': 'Transceiver'}, {'uid': f'roadm {s}', 'type': 'Roadm'}]
        cx += [{'from_node': f'trx {s}', 'to_node': f'roadm {s}'}, {'from_node': f'roadm {s}', 'to_node': f'trx {s}'}]
    for (x, y), mode in zip(pairs, modes):
        dirs = {'both': [(x, y), (y, x)], 'forward_only': [(x, y)], 'backward_only': [(y, x)], 'absent': []}[mode]
        kind = ctx.choice(f'line {x}-{y} layout', ['amp-fiber-amp', 'fiber-fused-fiber-amp'] if not multiband else
                          ['mbamp-fiber-mbamp', 'amp-fiber-amp'])
        for (u, v) in dirs:
            if kind == 'mbamp-fiber-mbamp':
                chain = [('Multiband_amplifier', f'booster {u}{v}'), ('Fiber', f'fiber {u}{v}'), ('Multiband_amplifier', f'preamp {u}{v}')]
            elif kind == 'amp-fiber-amp':
                chain = [('Edfa', f'booster {u}{v}'), ('Fiber', f'fiber {u}{v}'), ('Edfa', f'preamp {u}{v}')]
            else:
                chain = [('Fiber', f'fiber1 {u}{v}'), ('Fused', f'fused {u}{v}'), ('Fiber', f'fiber2 {u}{v}'), ('Edfa', f'preamp {u}{v}')]
            for typ, uid in chain:
                e = {'uid': uid, 'type': typ}
                if typ == 'Edfa':
                    e.update(type_variety='std_medium_gain_C' if multiband else 'std_medium_gain',
                             operational={'gain_target': 20.0, 'tilt_target': 0, 'out_voa': 0})
                elif typ == 'Multiband_amplifier':
                    e.update(type_variety='std_medium_gain_multiband', amplifiers=[
                        {'type_variety': 'std_medium_gain_C', 'operational': {'gain_target': 20.0, 'tilt_target': 0, 'out_voa': 0}},
                        {'type_variety': 'std_medium_gain_L', 'operational': {'gain_target': 20.0, 'tilt_target': 0, 'out_voa': 0}}])
                elif typ == 'Fiber':
                    e.update(type_variety='SSMF', params={'length': 50, 'length_units': 'km', 'loss_coef': 0.2, 'con_in': 0,
                                                          'con_out': 0, 'att_in': 0})
                els.append(e)
            names = [f'roadm {u}'] + [uid for _, uid in chain] + [f'roadm {v}']
            cx += [{'from_node': a, 'to_node': b} for a, b in zip(names[:-1], names[1:])]
            lines.append((u, v, names))
    g, by = build_elements(els, eqpt, connections=cx)
    # per-line amplifier band: symbolic slot numbers (narrower bands on some lines exercise map alignment)
    a0 = ctx.int('network band n_min', widths[0], widths[1])
    b0 = ctx.int('network band n_max', widths[2], widths[3])
    narrow = ctx.choice('line with a narrower band', list(range(len(lines) + 1))) if not multiband else len(lines)
    for li, (u, v, names) in enumerate([] if multiband else lines):
        a, b = (a0 + 1, b0 - 2) if li == narrow else (a0, b0)
        for uid in names:
            el = by[uid]
            if isinstance(el, Edfa):
                el.params.bands = [{'f_min': nf(a), 'f_max': nf(b)}]
                el.params.f_min, el.params.f_max = nf(a), nf(b)
    try:
        oms_list = build_oms_list(g, eqpt)
        err = None
    except Exception as e:      # noqa
        oms_list, err = None, e
    ctx.prove('the OMS list can be built', err is None, info=dict(error=repr(err)))
    if err is not None:
        return
    ctx.prove('one OMS per directed line', len(oms_list) == len(lines))
    seen = {}
    for o in oms_list:
        ids = list(o.el_id_list)
        match = [ln for ln in lines if ln[2] == ids]
        ctx.prove('OMS = one line, ROADM to ROADM, elements in path order', len(match) == 1 and isinstance(o.el_list[0], Roadm)
                  and isinstance(o.el_list[-1], Roadm) and all(not isinstance(e, (Roadm, Transceiver)) for e in o.el_list[1:-1]),
                  info=dict(ids=ids))
        for e in o.el_list[1:-1]:
            seen[e.uid] = seen.get(e.uid, 0) + 1
            ctx.prove('line element points to its OMS', getattr(e, 'oms', None) is o and getattr(e, 'oms_id', None) == o.oms_id,
                      info=dict(element=e.uid, kind=type(e).__name__))
    line_elements = [uid for (_, _, names) in lines for uid in names[1:-1]]
    ctx.prove('every line element in exactly one OMS', sorted(seen) == sorted(line_elements) and all(c == 1 for c in seen.values()))
    for o in oms_list:
        u, v = o.el_id_list[0], o.el_id_list[-1]
        opposite = [p for p in oms_list if p.el_id_list[0] == v and p.el_id_list[-1] == u]
        if opposite:
            ctx.prove('opposite directions are paired', o.reversed_oms is opposite[0], info=dict(oms=o.oms_id))
        else:
            ctx.prove('no opposite line: no partner', o.reversed_oms is None, info=dict(oms=o.oms_id, got=getattr(o.reversed_oms, 'oms_id', None)))
    ranges = {(o.spectrum_bitmap.n_min, o.spectrum_bitmap.n_max) for o in oms_list}
    ctx.prove('all maps cover the same slot range', len(ranges) == 1, info=dict(ranges=sorted(ranges)))
    for o in oms_list:
        sb = o.spectrum_bitmap
        ctx.prove('map indices contiguous and unique', sb.freq_index == list(range(sb.n_min, sb.n_max + 1)) and
                  len(sb.bitmap) == len(sb.freq_index), info=dict(oms=o.oms_id))


# ------------------------------------------------------------------------------------------------- fp-lemmas

def fp_lemmas(job):
    """bit-precise binary64 lemmas on the index/frequency conversions (z3 and cvc5)"""
    import z3
    import gnpy.topology.spectrum_assignment as sa
    from symx import fplemma as fl
    t0 = time.time()
    tmo = job.get('timeout_s', 120)
    out = []
    tr = fl.Translator(sa)
    which = job.get('which', (1, 2, 3))
    # L1: frequency_to_n(nvalue_to_frequency(n)) == n
    cons = []
    n = fl.int_var('n', -job.get('nmax', 4096), job.get('nmax', 4096), cons)
    back = tr.call(sa.frequency_to_n, [tr.call(sa.nvalue_to_frequency, [n])])
    if 1 in which:
        out.append((fl.decide('frequency_to_n(nvalue_to_frequency(n)) == n', cons, back[1] == n[1], tmo),
                    lambda m: sa.frequency_to_n(sa.nvalue_to_frequency(m['n'])) == m['n']))
    # L2: slots_to_m(mvalue_to_slots(n, m)) == (n, m)
    cons = []
    n = fl.int_var('n', -4096, 4096, cons)
    m = fl.int_var('m', 1, 512, cons)
    a, b = tr.call(sa.mvalue_to_slots, [n, m])
    n2, m2 = tr.call(sa.slots_to_m, [a, b])
    if 2 in which:
        out.append((fl.decide('slots_to_m(mvalue_to_slots(n, m)) == (n, m)', cons, z3.And(n2[1] == n[1], m2[1] == m[1]), tmo),
                    lambda mm: sa.slots_to_m(*sa.mvalue_to_slots(mm['n'], mm['m'])) == (mm['n'], mm['m'])))
    # L3: m_to_freq gives the edges of the slot range: frequency_to_n(fstart) == n - m, frequency_to_n(fstop) == n + m
    cons = []
    n = fl.int_var('n', -2048, 2048, cons)
    m = fl.int_var('m', 1, 256, cons)
    fs, fe = tr.call(sa.m_to_freq, [n, m])
    s1 = tr.call(sa.frequency_to_n, [fs])
    s2 = tr.call(sa.frequency_to_n, [fe])
    if 3 in which:
        out.append((fl.decide('frequency_to_n(m_to_freq(n, m)) == (n - m, n + m)', cons, z3.And(s1[1] == n[1] - m[1], s2[1] == n[1] + m[1]), tmo),
                    lambda mm: (sa.frequency_to_n(sa.m_to_freq(mm['n'], mm['m'])[0]), sa.frequency_to_n(sa.m_to_freq(mm['n'], mm['m'])[1]))
                    == (mm['n'] - mm['m'], mm['n'] + mm['m'])))
    res = dict(harness=job['name'], paths=0, forks=0, obligations=0, discharged=0, undecided=[], violations=[], witnesses_validated=0,
               samples=[], solver_s=0, functions=['gnpy/topology/spectrum_assignment.py:frequency_to_n', 'gnpy/topology/spectrum_assignment.py:nvalue_to_frequency',
                                                   'gnpy/topology/spectrum_assignment.py:slots_to_m', 'gnpy/topology/spectrum_assignment.py:mvalue_to_slots',
                                                   'gnpy/topology/spectrum_assignment.py:m_to_freq'],
               exhaustive=True, errors=[], queries=0, decisions=0, detail=[])
    for r, replay in out:
        res['obligations'] += 1
        res['paths'] += 1
        res['queries'] += 2
        res['solver_s'] += r.get('seconds_total', r['seconds'])
        res['detail'].append(r)
        if r['status'].startswith('unsat'):
            res['discharged'] += 1
            # reachability witness: evaluate the real functions on a few in-range values
            ok = all(replay(dict(n=x, m=y)) for x, y in ((0, 1), (-4096 // 2, 7), (13, 7), (2047, 256)))
            res['witnesses_validated'] += 1 if ok else 0
            res['samples'].append(dict(lemma=r['name'], solvers=dict(z3=r['z3'], cvc5=r.get('cvc5')), seconds=r.get('seconds_total')))
        elif r['status'] == 'sat':
            ok = replay(r['model'])
            if not ok:
                res['violations'].append(dict(harness=job['name'], obligation=r['name'], values=r['model'], choices={}, params={}))
            else:
                res['undecided'].append(dict(harness=job['name'], obligation=r['name'], why='solver model did not reproduce'))
        else:
            res['exhaustive'] = False
            res['undecided'].append(dict(harness=job['name'], obligation=r['name'], why=f"solvers: z3={r['z3']} cvc5={r.get('cvc5')}"))
    res['wall_s'] = round(time.time() - t0, 2)
    res['solver_s'] = round(res['solver_s'], 2)
    return res


def jobs(tier):
    js = [dict(name=f'fp:index_frequency_conversions:L{w}', kind='fp', fn='fp_lemmas', which=(w,), timeout_s=150 if tier == 'quick' else 600,
               cost=1000, budget_s=300 if tier == 'quick' else 600) for w in (1, 2, 3)]
    for n in ([2] if tier == 'quick' else [2, 3]):
        js.append(dict(name=f'H15a:align_grids:{n}oms', fn='h_align', params=dict(n_oms=n), witness_every=5, cost=100 * n))
    for shape in ('one_band_two_amps', 'two_bands', 'two_then_one'):
        js.append(dict(name=f'H15b:oms_bitmap:{shape}', fn='h_oms_bitmap', params=dict(shape=shape, R=3 if tier == 'quick' else 6), witness_every=20,
                       budget_s=200 if tier == 'quick' else 600, cost=500))
    for modes in itertools.product(('both', 'forward_only', 'backward_only'), ('both', 'forward_only', 'backward_only', 'absent'),
                                   ('both', 'backward_only', 'absent')):
        js.append(dict(name=f'H15c:partition:AB={modes[0]},BC={modes[1]},AC={modes[2]}', fn='h_partition',
                       params=dict(modes=modes, widths=(-6, -5, 5, 6) if tier == 'quick' else (-8, -4, 4, 8)), witness_every=10,
                       budget_s=150 if tier == 'quick' else 600, cost=50))
    for modes in (('both', 'both', 'both'), ('both', 'forward_only', 'absent')):
        js.append(dict(name=f'H15c:partition:multiband_amplifiers:AB={modes[0]},BC={modes[1]},AC={modes[2]}', fn='h_partition',
                       params=dict(modes=modes, widths=(-6, -6, 6, 6), multiband=True), witness_every=4, budget_s=150, cost=50))
    return js
