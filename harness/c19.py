"""C19 — the reported response states exactly what was computed for each request."""
import math
from copy import deepcopy

import numpy as np

from harness.common import *      # noqa
from harness import common, elems, c13
from symx.core import SR, SI, approx

setup = common.setup

META = dict(
    level='model_checking',
    explanation='symx: real compute_path_with_disjunction, pth_assign_spectrum, ResultElement.json / path_properties / '
                'detailed_path_json, results_to_json, jsontocsv and requests_aggregation on the Transceiver-Roadm-line-Roadm-Transceiver '
                'path of C13 whose receiver figures are distinct symbolic reals per direction and per channel; z3 decides (exact '
                'rounding) that every reported metric is the value of the right receiver rounded to two decimals, that the CSV row '
                'states the same values and that the pass flag follows the margin-inclusive threshold',
    bounds=['3 channels, served / blocked (mode not feasible) / blocked at spectrum assignment (no free slot) / bidirectional outcomes, '
            'penalties from concrete tables (different per direction); operator-fixed slots (N, M) = (0, 4) and (-8, 4)', 'aggregation of 3 requests of which one differs only in a symbolic transmit power'],
    assumptions=['floats as reals', 'CSV cell layer replaced by an in-memory recorder of the rows handed to csv.DictWriter',
                 'line environment stub as in C13'],
    stubs=['csv.DictWriter in gnpy.topology.request -> in-memory row recorder', 'LineStub (C13)'],
)


class _Recorder:
    rows = []

    def __init__(self, fileout, fieldnames=None):
        self.fieldnames = fieldnames
        _Recorder.rows = []

    def writeheader(self):
        pass

    def writerow(self, values):
        _Recorder.rows.append(dict(values))


def _is_2dec_of(metric, x):
    """metric is x rounded to two decimals: a multiple of 0.01 within 0.005 of x"""
    n = metric * 100
    whole = eq(n, round(n)) if is_symbolic(n) else abs(n - round(n)) < 1e-6
    return And(whole, le(metric - x, 0.005 + 1e-9), le(x - metric, 0.005 + 1e-9))


def _mean(xs):
    s = 0
    for x in xs:
        s = s + x
    return s / len(xs)


def h_response(ctx, scenario, bidir, spectrum='free', fixed_slot=None):
    import io
    import gnpy.topology.request as rq_mod
    from gnpy.topology.request import compute_path_with_disjunction, ResultElement, jsontocsv
    from gnpy.topology.spectrum_assignment import OMS, pth_assign_spectrum, nvalue_to_frequency, DEFAULT_GRID as G
    from gnpy.tools.json_io import results_to_json
    symbolic_ctors(ctx)
    elems.set_sim_params()
    thr = ctx.real('required_osnr', lo=5, hi=30)
    margin = ctx.real('sys_margin', lo=0, hi=5)
    g, split = c13._symbolic_figures(ctx, '')
    path = c13._make_path(ctx, '', g, split, scenario)
    ta, ra, line, rb, tb = path
    rev_sc = 'inside' if scenario == 'zero' else 'zero'
    g2, split2 = c13._symbolic_figures(ctx, '_rev')
    rpath = c13._make_path(ctx, '_rev', g2, split2, rev_sc)
    line_rev = rpath[2]
    rb.set_roadm_paths(tb.uid, line_rev.uid, 'add')
    ra.set_roadm_paths(line_rev.uid, ta.uid, 'drop')
    rb.ref_pch_in_dbm[tb.uid] = 0.0
    ra.ref_pch_in_dbm[line_rev.uid] = 0.0

    class _Oms:
        pass
    fwd, rev = _Oms(), _Oms()
    fwd.el_list, rev.el_list = [ra, line, rb], [rb, line_rev, ra]
    fwd.reversed_oms, rev.reversed_oms = rev, fwd
    line.oms, line_rev.oms = fwd, rev
    line.oms_id, line_rev.oms_id = 0, 1
    req = c13._request(thr, bidir=bidir)
    req.N, req.M = ([None], [None]) if fixed_slot is None else ([fixed_slot[0]], [fixed_slot[1]])
    eq_ = c13._eqpt(margin)
    trx = deepcopy(eq_['Transceiver']['Voyager'])
    trx.mode = [dict(format='mode 1', baud_rate=32e9, OSNR=thr, bit_rate=100e9, roll_off=0.15, tx_osnr=c13.TX_OSNR, min_spacing=37.5e9,
                     cost=1, penalties=deepcopy(c13.PENALTIES), equalization_offset_db=0)]
    eq_['Transceiver']['stub_trx'] = trx
    prop, revp, revprop = compute_path_with_disjunction(None, eq_, [req], [path])
    oms_list = []
    for i in range(2):
        o = OMS(oms_id=i, el_id_list=[], el_list=[])
        o.update_spectrum(nvalue_to_frequency(-40), nvalue_to_frequency(40), guardband=G, grid=G)
        if spectrum == 'occupied':
            o.assign_spectrum(0, 36)          # nothing left for this request: it is blocked at spectrum assignment
        oms_list.append(o)
    pre_blocked = hasattr(req, 'blocking_reason')
    pth_assign_spectrum([path], [req], oms_list, revp)
    res = ResultElement(req, prop[0], revprop[0])
    blocked = hasattr(req, 'blocking_reason')
    j = res.json
    info = dict(scenario=scenario, bidir=bidir, blocked=blocked, spectrum=spectrum, reason=getattr(req, 'blocking_reason', None))
    ctx.prove('response carries the request id', j['response-id'] == 'r1', info=info)
    if spectrum == 'occupied' and not pre_blocked:
        ctx.prove('request without free spectrum is blocked for that reason', getattr(req, 'blocking_reason', None) in
                  ('NO_SPECTRUM', 'NOT_ENOUGH_RESERVED_SPECTRUM'), info=info)
    if blocked and 'no-path' not in j:
        ctx.prove('blocked request is reported as no-path with its blocking reason', False, info=dict(info, keys=sorted(j)))
        return
    props = j['no-path']['path-properties'] if blocked else j['path-properties']
    if blocked:
        ctx.prove('blocked request carries its blocking reason', j['no-path']['no-path'] == req.blocking_reason, info=info)
    else:
        ctx.prove('served request has no no-path block', 'no-path' not in j, info=info)
    objs = props['path-route-objects']
    hops = [o['path-route-object']['num-unnum-hop']['node-id'] for o in objs if 'num-unnum-hop' in o['path-route-object']]
    ctx.prove('route listed hop by hop', hops == [e.uid for e in path], info=dict(info, hops=hops))
    labels = [o['path-route-object']['label-hop'] for o in objs if 'label-hop' in o['path-route-object']]
    if blocked:
        ctx.prove('blocked request has no labels', labels == [] and req.N is None and req.M is None, info=info)
    else:
        want = [{'N': n, 'M': m} for n, m in zip(req.N, req.M)]
        ctx.prove('labels are the assigned N and M after every hop', len(labels) == len(path) and all(l == want for l in labels) and
                  all(isinstance(n, int) for n in req.N) and all(isinstance(m, int) and m > 0 for m in req.M), info=dict(info, want=want))
    tsp = [o['path-route-object']['transponder'] for o in objs if 'transponder' in o['path-route-object']]
    ctx.prove('transponder type and mode reported at both ends', len(tsp) == 2 and all(t == {'transponder-type': 'stub_trx', 'transponder-mode': 'mode 1'}
                                                                              for t in tsp), info=info)

    def metrics(lst):
        return {m['metric-type']: m['accumulative-value'] for m in lst}

    def check_dir(tag, m, gg, sc):
        k = len(gg)
        pens = [c13.total_ref_penalty(sc, i) for i in range(k)]
        ctx.prove(f'{tag}: SNR-0.1nm is the receiver mean rounded to 2 decimals', _is_2dec_of(m['SNR-0.1nm'], _mean(gg)), info=info)
        lo = gg[0]
        hi = gg[0]
        for x in gg[1:]:
            if bool(x < lo):
                lo = x
            if bool(x > hi):
                hi = x
        ctx.prove(f'{tag}: lowest SNR is the worst channel rounded', _is_2dec_of(m['lowest_SNR-0.1nm'], lo), info=info)
        ctx.prove(f'{tag}: biggest SNR is the best channel rounded', _is_2dec_of(m['biggest_SNR-0.1nm'], hi), info=info)
        for key, short, name in (('chromatic_dispersion', 'cd', 'CD_penalty'), ('pmd', 'pmd', 'PMD_penalty'), ('pdl', 'pdl', 'PDL_penalty')):
            vals = [c13.ref_penalty(c13.PENALTIES[key], c13.SCENARIOS[sc][short][i % 3]) for i in range(k)]
            want = 'Infinity' if any(math.isinf(v) for v in vals) else round(sum(vals) / k, 2)
            ctx.prove(f'{tag}: {name} is this direction\'s receiver penalty', m[name] == want or
                      (not isinstance(m[name], str) and not isinstance(want, str) and abs(m[name] - want) < 0.0051), info=dict(info, got=m[name], want=want))
        ctx.prove(f'{tag}: reference power and bandwidth of the request', m['reference_power'] == req.power and m['path_bandwidth'] == req.path_bandwidth)
    check_dir('a-z', metrics(props['path-metric']), g, scenario)
    if bidir:
        ctx.prove('bidirectional request carries both directions', 'z-a-path-metric' in props, info=info)
        if 'z-a-path-metric' in props:
            check_dir('z-a', metrics(props['z-a-path-metric']), g2, rev_sc)
    else:
        ctx.prove('unidirectional request carries one direction', 'z-a-path-metric' not in props, info=info)
    # ---- JSON list and CSV
    out = results_to_json([res])
    ctx.prove('one response per request', len(out['response']) == 1 and out['response'][0]['response-id'] == 'r1')
    orig = rq_mod.DictWriter
    rq_mod.DictWriter = _Recorder
    try:
        jsontocsv(out, eq_, io.StringIO())
    finally:
        rq_mod.DictWriter = orig
    rows = _Recorder.rows
    ctx.prove('one CSV row per response', len(rows) == 1 and rows[0]['response-id'] == 'r1')
    row = rows[0]
    m = metrics(props['path-metric'])
    ctx.prove('CSV states the same SNR and OSNR values', And(eq(row['SNR-0.1nm (average)'], m['SNR-0.1nm']),
                                                            eq(row['SNR-0.1nm (min)'], m['lowest_SNR-0.1nm']),
                                                            eq(row['OSNR-0.1nm (average)'], m['OSNR-0.1nm'])), info=info)
    ctx.prove('CSV source, destination, transponder', row['source'] == ta.uid and row['destination'] == tb.uid and
              row['transponder-type'] == 'stub_trx' and row['transponder-mode'] == 'mode 1', info=info)
    ctx.prove('CSV threshold includes the margin', eq(row['min required OSNR (inc. margin)'], thr + margin), info=info)
    if blocked:
        ctx.prove('CSV pass field carries the blocking reason', row['Pass?'] == req.blocking_reason, info=info)
    else:
        flag = row['Pass?']
        want = ge(m['lowest_SNR-0.1nm'], thr + margin)
        if isinstance(flag, (bool, np.bool_)):
            ctx.prove('CSV pass flag consistent with the margin-inclusive threshold', want if flag else Not(want), info=info)
        else:
            from symx.core import SB
            import z3
            ctx.prove('CSV pass flag consistent with the margin-inclusive threshold',
                      SB(flag.e == (want.e if isinstance(want, SB) else z3.BoolVal(bool(want)))), info=info)
        ctx.prove('CSV path and spectrum', row['path'] == ' | '.join(e.uid for e in path) and row['spectrum (N,M)'] == f'{req.N}, {req.M}', info=info)
    if bidir and 'z-a-path-metric' in props:
        mz = metrics(props['z-a-path-metric'])
        ctx.prove('CSV reversed-path columns are the z-a values', And(eq(row['reversed path SNR-0.1nm (average)'], mz['SNR-0.1nm']),
                                                                     eq(row['reversed path SNR-0.1nm (min)'], mz['lowest_SNR-0.1nm'])), info=info)


def h_aggregation(ctx):
    """identical requests are aggregated under the joined id with their bandwidths summed; a request differing in any
    compared parameter (here only the transmit power) keeps its own id and bandwidth"""
    from gnpy.topology.request import requests_aggregation, PathRequest
    p1 = ctx.real('tx_power_same_w', lo=1e-5, hi=5e-3)
    p2 = ctx.real('tx_power_other_w', lo=1e-5, hi=5e-3)
    ctx.assume(Not(eq(p1, p2)) if ctx.mode == 'sym' else p1 != p2)
    which = ctx.choice('differing field', ['tx_power', 'power', 'spacing', 'none', 'hop_types', 'include_nodes'])
    if which == 'power':
        ctx.assume(Not(eq(p2, 1e-3)) if ctx.mode == 'sym' else p2 != 1e-3)

    def mk(rid, bw, txp, **over):
        kw = dict(request_id=rid, source='trx A', destination='trx B', bidir=False, trx_type='Voyager', trx_mode='mode 1', baud_rate=32e9,
                  nodes_list=[], loose_list=[], format='mode 1', bit_rate=100e9, roll_off=0.15, OSNR=11, penalties={}, path_bandwidth=bw,
                  f_min=191.3e12, f_max=196.1e12, spacing=50e9, min_spacing=37.5e9, cost=1, nb_channel=10, power=1e-3,
                  equalization_offset_db=0, tx_power=txp, tx_osnr=40, effective_freq_slot=[{'N': None, 'M': None}])
        kw.update(over)
        return PathRequest(**kw)
    over = {'tx_power': dict(), 'power': dict(power=p2), 'spacing': dict(spacing=75e9), 'none': dict(),
            'hop_types': dict(nodes_list=['roadm X'], loose_list=['STRICT']), 'include_nodes': dict(nodes_list=['roadm Y'], loose_list=['LOOSE'])}[which]
    base = dict(nodes_list=['roadm X'], loose_list=['LOOSE']) if which in ('hop_types', 'include_nodes') else {}
    r1, r3 = mk('r1', 100e9, p1, **base), mk('r3', 50e9, p1, **base)
    r2 = mk('r2', 30e9, p2 if which == 'tx_power' else p1, **over)
    rqs, _ = requests_aggregation([r1, r2, r3], [])
    ids = sorted(r.request_id for r in rqs)
    bw = {r.request_id: r.path_bandwidth for r in rqs}
    if which == 'none':
        ctx.prove('three identical requests: one response under the joined id, bandwidths summed',
                  len(rqs) == 1 and set(rqs[0].request_id.split(' | ')) == {'r1', 'r2', 'r3'} and rqs[0].path_bandwidth == 180e9, info=dict(ids=ids))
    else:
        ctx.prove('the differing request keeps its own id and bandwidth', 'r2' in ids and bw.get('r2') == 30e9, info=dict(ids=ids, which=which))
        joined = [r for r in rqs if r.request_id != 'r2']
        ctx.prove('the identical ones are aggregated under the joined id with summed bandwidth', len(joined) == 1 and
                  set(joined[0].request_id.split(' | ')) == {'r1', 'r3'} and joined[0].path_bandwidth == 150e9, info=dict(ids=ids, which=which))


def jobs(tier):
    js = []
    for sc in ('inside', 'zero', 'cd_outside'):
        for bidir in (False, True):
            js.append(dict(name=f'H19:response:{sc}:{"bidir" if bidir else "unidir"}', fn='h_response', params=dict(scenario=sc, bidir=bidir),
                           cost=200 if bidir else 60, witness_every=3, budget_s=150 if tier == 'quick' else 600))
    # operator-fixed slot centred on N = 0 (193.1 THz), and one at a negative N
    for slot in ((0, 4), (-8, 4)):
        js.append(dict(name=f'H19:response:zero:unidir:fixed_slot_N={slot[0]}', fn='h_response',
                       params=dict(scenario='zero', bidir=False, fixed_slot=slot), cost=100, witness_every=3,
                       budget_s=150 if tier == 'quick' else 600))
    for bidir in (False, True):
        js.append(dict(name=f'H19:response:zero:{"bidir" if bidir else "unidir"}:no_free_spectrum', fn='h_response',
                       params=dict(scenario='zero', bidir=bidir, spectrum='occupied'), cost=100, witness_every=3,
                       budget_s=150 if tier == 'quick' else 600))
    js.append(dict(name='H19:aggregation', fn='h_aggregation', cost=5))
    return js
