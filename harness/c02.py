"""C02 — signal quality never improves along a path; passive elements leave it unchanged."""
import numpy as np

from harness.common import *      # noqa
from harness import common, elems
from symx.core import approx
from harness.c01 import h_mutator     # noqa (re-exported for the driver)

setup = common.setup
META = dict(
    level='model_checking',
    explanation='inductive element step (symx): from an arbitrary valid state, one real element __call__; z3 decides, in '
                'cross-multiplied form, that GSNR, OSNR_ASE and SNR_NLI do not increase, that ROADM/fused/attenuation leave all '
                'three unchanged, that an amplifier moves only OSNR_ASE and a non-Raman fibre only SNR_NLI',
    bounds=['channels k<=3 (quick) / 6 (thorough)', 'concrete fibre types (SSMF 80 km, NZDF 120 km with lumped losses, SSMF 5 km), '
            'per-channel power <= 10 mW', 'amplifier flat profile (tilt 0), all library type_defs', 'floats as reals',
            'GGN methods: 4 channels, computed_channels in {2+3, 1+4, 2, all}; efficiencies of the computed channels arbitrary in [0, 1e4]'],
    assumptions=['floats modelled as reals', 'pre-state satisfies I', 'Raman flag off',
                 'one step from an arbitrary valid state stands for paths of any length (composition checked at path level in C16 harness)'],
    stubs=['NliSolver._ggn_approx / _ggn_spectrally_separated -> arbitrary non-negative symbolic efficiencies (sparse-channel harness only)',
           'scipy interp1d in science_utils -> symx.npshim.SymInterp1d (same piecewise-linear values, symbolic ordinates)'],
)


def h_nli_sparse(ctx, method, computed):
    """GGN methods with NLI computed on a subset of the channels only (computed_channels): the real compute_nli spreads the
    result over the other channels; for ARBITRARY non-negative efficiencies of the computed channels (environment stub for
    the numerical GGN integrals) and arbitrary powers, no channel - inside or outside the computed range - receives a
    negative NLI, so a fibre never improves SNR_NLI"""
    import gnpy.core.science_utils as su
    from gnpy.core.parameters import SimParams
    from symx.npshim import SymInterp1d
    symbolic_ctors(ctx)
    k = 4
    SimParams.set_params({'nli_params': {'method': method, 'computed_channels': list(computed)}, 'raman_params': {'flag': False}})
    si = make_si(ctx, k, pmax=1e-2)
    eta = np.empty((len(computed), k), dtype=object if ctx.mode == 'sym' else float)
    for a in range(len(computed)):
        for b in range(k):
            eta[a, b] = ctx.real(f'eta_{a}_{b}', lo=0, hi=1e4)
    fn = '_ggn_approx' if method == 'ggn_approx' else '_ggn_spectrally_separated'
    orig, orig_i = getattr(su.NliSolver, fn), su.__dict__.get('interp1d')
    setattr(su.NliSolver, fn, staticmethod(lambda cut_indices, spectral_info, fiber, srs, *a, **kw: eta))
    su.interp1d = SymInterp1d
    try:
        nli = su.NliSolver.compute_nli(si, None, None)
    finally:
        setattr(su.NliSolver, fn, orig)
        if orig_i is not None:
            su.interp1d = orig_i
        elems.set_sim_params()
    ctx.prove('one NLI value per channel', len(nli) == k)
    for i in range(k):
        ctx.prove(f'nli_sparse:{method}:nli_not_negative[{i}]', ge(nli[i], 0), info=dict(method=method, computed=list(computed), channel=i + 1))
    for a, ch in enumerate(computed):
        want = 0
        for b in range(k):
            want = want + eta[a, b] * si._pch[ch - 1] * si._pch[b] ** 2
        ctx.prove(f'nli_sparse:{method}:computed_channel_gets_its_own_sum[{ch}]', approx(nli[ch - 1], want, 1e-9),
                  info=dict(method=method, computed=list(computed)))


def h_nli_sim_params(ctx, method):
    """GGN methods configured by computed_number_of_channels: computing the NLI of one comb leaves the process-wide
    simulation parameters exactly as they were, so a second comb with another channel count is computed as if it came first"""
    import gnpy.core.science_utils as su
    from gnpy.core.parameters import SimParams
    symbolic_ctors(ctx)
    SimParams.set_params({'nli_params': {'method': method, 'computed_number_of_channels': 2}, 'raman_params': {'flag': False}})

    def snapshot():
        return {k: v.to_json() for k, v in SimParams._shared_dict.items()}
    fn = '_ggn_approx' if method == 'ggn_approx' else '_ggn_spectrally_separated'
    orig = getattr(su.NliSolver, fn)
    seen = []

    def stub(cut_indices, spectral_info, fiber, srs, *a, **kw):
        seen.append([int(i) for i in cut_indices])
        return np.ones((len(cut_indices), spectral_info.number_of_channels)) * 1e-3
    setattr(su.NliSolver, fn, staticmethod(stub))
    try:
        before = snapshot()
        first_k = ctx.choice('channels of the first comb', [2, 4, 6])
        second_k = ctx.choice('channels of the second comb', [2, 4, 6])
        err = None
        try:
            su.NliSolver.compute_nli(make_si(ctx, first_k, tag='x', pmax=1e-2), None, None)
            mid = snapshot()
            su.NliSolver.compute_nli(make_si(ctx, second_k, tag='y', pmax=1e-2), None, None)
        except Exception as e:      # noqa
            err, mid = f'{type(e).__name__}: {e}', None
        after = snapshot()
    finally:
        setattr(su.NliSolver, fn, orig)
        elems.set_sim_params()
    info = dict(method=method, first=first_k, second=second_k)
    ctx.prove('both combs are computed', err is None, info=dict(info, error=err))
    ctx.prove('simulation parameters unchanged by computing NLI', before == after and (mid is None or mid == before),
              info=dict(info, before=before.get('nli_params'), after=after.get('nli_params')))
    if err is None:
        ctx.prove('channels under test of the second comb are those it gets when computed first (first and last channel)',
                  seen[-1] == [0, second_k - 1], info=dict(info, channels=seen))


def jobs(tier):
    ks = [1, 2, 3] if tier == 'quick' else [1, 2, 3, 4, 5, 6]
    P = ('C02',)
    js = []
    for k in ks[1:]:
        for pol, ov in (('pch', 'none'), ('psd', 'none'), ('psw', 'pch')):
            js.append(dict(name=f'H2:roadm:{pol}/{ov}:k{k}', module='harness.elems', fn='h_roadm',
                           params=dict(policy=pol, override=ov, k=k, props=P), cost=2 ** k))
    for k in ks:
        js.append(dict(name=f'H2:fused:k{k}', module='harness.elems', fn='h_fused', params=dict(k=k, props=P)))
        for var in (['ssmf80', 'nzdf120_lumped', 'negdisp60'] if tier == 'quick' else list(elems.FIBER_VARIANTS)):
            js.append(dict(name=f'H2:fiber:{var}:k{k}', module='harness.elems', fn='h_fiber',
                           params=dict(variant=var, k=k, props=P), cost=3 ** k))
    for pumps in ('above', 'inside'):
        js.append(dict(name=f'H2:ramanfiber:pumps_{pumps}:k3', module='harness.elems', fn='h_raman_fiber',
                       params=dict(pumps=pumps, k=3, props=P), cost=50))
    for var in elems.EDFA_QUICK:
        for k in ks[1:]:
            js.append(dict(name=f'H2:edfa:{var}:k{k}', module='harness.elems', fn='h_edfa',
                           params=dict(variety=var, k=k, props=P, oob=(k == 2)), cost=4 ** k))
    # rebuilding a spectrum (band filter, demux/mux, addition) keeps every share exactly, however small
    for via in ('init', 'add'):
        js.append(dict(name=f'H2:rebuild_keeps_shares:{via}:k2', module='harness.c01', fn='h_construct_interleaved',
                       params=dict(k=2, via=via), cost=10))
    for method in ('ggn_approx', 'ggn_spectrally_separated'):
        for comp in ((2, 3), (1, 4), (2,), (1, 2, 3, 4)):
            js.append(dict(name=f'H2:nli_sparse_computed_channels:{method}:{"+".join(map(str, comp))}', fn='h_nli_sparse',
                           params=dict(method=method, computed=comp), cost=20))
    return js
