"""C02 — signal quality never improves along a path; passive elements leave it unchanged."""
from harness import common, elems
from harness.c01 import h_mutator     # noqa (re-exported for the driver)

setup = common.setup
META = dict(
    level='model_checking',
    explanation='inductive element step (symx): from an arbitrary valid state, one real element __call__; z3 decides, in '
                'cross-multiplied form, that GSNR, OSNR_ASE and SNR_NLI do not increase, that ROADM/fused/attenuation leave all '
                'three unchanged, that an amplifier moves only OSNR_ASE and a non-Raman fibre only SNR_NLI',
    bounds=['channels k<=3 (quick) / 4 (thorough)', 'concrete fibre types (SSMF 80 km, NZDF 120 km with lumped losses, SSMF 5 km), '
            'per-channel power <= 10 mW', 'amplifier flat profile (tilt 0), all library type_defs', 'floats as reals'],
    assumptions=['floats modelled as reals', 'pre-state satisfies I', 'Raman flag off',
                 'one step from an arbitrary valid state stands for paths of any length (composition checked at path level in C16 harness)'],
    stubs=[],
)


def jobs(tier):
    ks = [1, 2, 3] if tier == 'quick' else [1, 2, 3, 4]
    P = ('C02',)
    js = []
    for k in ks[1:]:
        for pol, ov in (('pch', 'none'), ('psd', 'none'), ('psw', 'pch')):
            js.append(dict(name=f'H2:roadm:{pol}/{ov}:k{k}', module='harness.elems', fn='h_roadm',
                           params=dict(policy=pol, override=ov, k=k, props=P), cost=2 ** k))
    for k in ks:
        js.append(dict(name=f'H2:fused:k{k}', module='harness.elems', fn='h_fused', params=dict(k=k, props=P)))
        for var in (['ssmf80', 'nzdf120_lumped', 'negdisp60'] if tier == 'quick' else list(elems.FIBER_VARIANTS)):
            js.append(dict(name=f'H2:fiber:{var}:k{k}', module='harness.elems', fn='h_fiber',
                           params=dict(variant=var, k=k, props=P), cost=3 ** k))
    for pumps in ('above', 'inside'):
        js.append(dict(name=f'H2:ramanfiber:pumps_{pumps}:k3', module='harness.elems', fn='h_raman_fiber',
                       params=dict(pumps=pumps, k=3, props=P), cost=50))
    for var in elems.EDFA_QUICK:
        for k in ks[1:]:
            js.append(dict(name=f'H2:edfa:{var}:k{k}', module='harness.elems', fn='h_edfa',
                           params=dict(variety=var, k=k, props=P, oob=(k == 2)), cost=4 ** k))
    return js
