"""small ROADM meshes built through the real loaders, with symbolic fibre lengths (shared by C11, C12)"""
import itertools

from harness.common import *      # noqa

SITES = ['A', 'B', 'C', 'D', 'E']

SHAPES = {
    # undirected site pairs (every link exists in both directions)
    'line3': (3, [('A', 'B'), ('B', 'C')]),
    'triangle': (3, [('A', 'B'), ('B', 'C'), ('A', 'C')]),
    'ring4': (4, [('A', 'B'), ('B', 'C'), ('C', 'D'), ('A', 'D')]),
    'ring4+chord': (4, [('A', 'B'), ('B', 'C'), ('C', 'D'), ('A', 'D'), ('A', 'C')]),
    'square+tail': (4, [('A', 'B'), ('B', 'C'), ('A', 'C'), ('C', 'D')]),
    'mesh4': (4, [('A', 'B'), ('B', 'C'), ('C', 'D'), ('A', 'D'), ('A', 'C'), ('B', 'D')]),
    'ring5+chord': (5, [('A', 'B'), ('B', 'C'), ('C', 'D'), ('D', 'E'), ('A', 'E'), ('B', 'E')]),
}


class Mesh:
    pass


def build_mesh(ctx, shape, symmetric_lengths=False, with_oms=True, long_links=(), hi_km=1000, two_fibre_links=()):
    """network (DiGraph of real elements) for a shape; fibre length of every directed link is a symbolic real in km"""
    from gnpy.topology.spectrum_assignment import build_oms_list
    n, pairs = SHAPES[shape]
    sites = SITES[:n]
    els, cx = [], []
    for s in sites:
        els += [{'uid': f'trx {s}', 'type': 'Transceiver'}, {'uid': f'roadm {s}', 'type': 'Roadm'}]
        cx += [{'from_node': f'trx {s}', 'to_node': f'roadm {s}'}, {'from_node': f'roadm {s}', 'to_node': f'trx {s}'}]
    lengths = {}
    lengths2 = {}
    links = []
    for (x, y) in pairs:
        for (u, v) in ((x, y), (y, x)):
            if symmetric_lengths and (v, u) in lengths:
                L = lengths[(v, u)]
            else:
                L = ctx.real(f'km {u}->{v}', lo=1, hi=long_links[frozenset((u, v))] if frozenset((u, v)) in long_links else hi_km)
            lengths[(u, v)] = L
            fid, aid = f'fiber {u}{v}', f'edfa {u}{v}'
            els.append({'uid': fid, 'type': 'Fiber', 'type_variety': 'SSMF',
                        'params': {'length': L, 'length_units': 'km', 'loss_coef': 0.2, 'con_in': 0, 'con_out': 0, 'att_in': 0}})
            els.append({'uid': aid, 'type': 'Edfa', 'type_variety': 'std_medium_gain',
                        'operational': {'gain_target': 20.0, 'tilt_target': 0, 'out_voa': 0}})
            names = [f'roadm {u}', fid, aid, f'roadm {v}']
            if frozenset((u, v)) in two_fibre_links:
                # the link is described as two fibres of different lengths plugged into each other (no amplifier in between)
                if symmetric_lengths and (v, u) in lengths2:
                    L2 = lengths2[(v, u)]
                else:
                    L2 = ctx.real(f'km {u}->{v} second fibre', lo=1, hi=hi_km)
                lengths2[(u, v)] = L2
                lengths[(u, v)] = L + L2
                els.append({'uid': fid + ' b', 'type': 'Fiber', 'type_variety': 'SSMF',
                            'params': {'length': L2, 'length_units': 'km', 'loss_coef': 0.2, 'con_in': 0, 'con_out': 0, 'att_in': 0}})
                names = [f'roadm {u}', fid, fid + ' b', aid, f'roadm {v}']
            cx += [{'from_node': a, 'to_node': b} for a, b in zip(names[:-1], names[1:])]
            links.append((u, v))
    eqpt = equipment()
    g, by = build_elements(els, eqpt, connections=cx)
    m = Mesh()
    m.graph, m.by, m.sites, m.links, m.lengths, m.eqpt = g, by, sites, links, lengths, eqpt
    m.oms_list = build_oms_list(g, eqpt) if with_oms else None
    return m


def site_paths(m, src, dst):
    """all simple site sequences from src to dst"""
    adj = {}
    for (u, v) in m.links:
        adj.setdefault(u, []).append(v)
    out = []

    def rec(path):
        if path[-1] == dst:
            out.append(list(path))
            return
        for nx in adj.get(path[-1], []):
            if nx not in path:
                rec(path + [nx])
    rec([src])
    return out


def elements_of(m, sites):
    """element uid sequence of the path visiting the given sites"""
    ids = [f'trx {sites[0]}']
    for u, v in zip(sites[:-1], sites[1:]):
        ids += [f'roadm {u}', f'fiber {u}{v}', f'edfa {u}{v}']
    ids += [f'roadm {sites[-1]}', f'trx {sites[-1]}']
    return ids


def fibre_km(m, sites):
    tot = 0
    for u, v in zip(sites[:-1], sites[1:]):
        tot = tot + m.lengths[(u, v)]
    return tot


def request(rid, src, dst, nodes=(), loose=(), bidir=False, omit_lists=False):
    from gnpy.topology.request import PathRequest
    if omit_lists:
        # built through the API without any include list: the constructor's own defaults are used
        return PathRequest(request_id=rid, source=f'trx {src}', destination=f'trx {dst}', bidir=bidir, trx_type='Voyager',
                           trx_mode='mode 1', baud_rate=32e9, format='mode 1', bit_rate=100e9, roll_off=0.15, OSNR=11, penalties={},
                           path_bandwidth=100e9, f_min=191.3e12, f_max=196.1e12, spacing=50e9, min_spacing=37.5e9, cost=1, nb_channel=10,
                           power=1e-3, equalization_offset_db=0, tx_power=1e-3, tx_osnr=40)
    return PathRequest(request_id=rid, source=f'trx {src}', destination=f'trx {dst}', bidir=bidir, trx_type='Voyager',
                       trx_mode='mode 1', baud_rate=32e9, nodes_list=list(nodes), loose_list=list(loose), format='mode 1',
                       bit_rate=100e9, roll_off=0.15, OSNR=11, penalties={}, path_bandwidth=100e9, f_min=191.3e12, f_max=196.1e12,
                       spacing=50e9, min_spacing=37.5e9, cost=1, nb_channel=10, power=1e-3, equalization_offset_db=0,
                       tx_power=1e-3, tx_osnr=40)
