"""C06 — a ROADM never amplifies and equalises every channel to its egress target."""
from harness import common, elems, c06b

setup = common.setup
META = dict(
    level='model_checking',
    explanation='symx: the real Roadm.__call__ for the 3 node policies x {no override, pch, psd, psw per-degree override} with '
                'symbolic targets, offsets, input powers (above and below target), max-loss impairment, mixed baud rates/slot '
                'widths; oracle P_out = min(target*offset, P_in/maxloss) in linear units; plus single-policy enforcement and '
                'per-degree target population harnesses',
    bounds=['channels k<=3 (quick) / 6 (thorough)', 'baud/slot per channel fixed to (32/50, 64/75, 42/50, 32/37.5, 60/62.5, 28/37.5 GHz)',
            'floats as reals', 'internal paths: one ROADM with two ingress and two egress degrees and a transceiver, 6 impairment profiles '
            '(two per path type), the non-default one selected on one of 6 crossings or none'],
    assumptions=['floats modelled as reals', 'targets, offsets and powers positive in linear units (any dB value)',
                 'roadm-maxloss >= 0 dB'],
    stubs=[],
)


def jobs(tier):
    ks = [2, 3] if tier == 'quick' else [2, 3, 4, 5, 6]
    js = []
    for pol in ('pch', 'psd', 'psw'):
        for ov in ('none', 'pch', 'psd', 'psw'):
            for k in ks:
                if tier == 'quick' and k == 3 and ov not in ('none', pol):
                    continue
                js.append(dict(name=f'H6a:roadm:{pol}/{ov}:k{k}', module='harness.elems', fn='h_roadm',
                               params=dict(policy=pol, override=ov, k=k, props=('C06', 'C05')), cost=4 ** k))
    return js + c06b.jobs(tier)
