"""C07 — the launched channel set survives the path intact; channel order is irrelevant."""
import itertools

import numpy as np

from harness.common import *      # noqa
from harness import common, elems
from symx.core import SR

setup = common.setup

META = dict(
    level='model_checking',
    explanation='symx: real SpectralInformation.__init__ / create_arbitrary_spectral_information with symbolic frequencies, slot widths '
                'and baud rates in every supply order; real filter_si / find_elements_common_range / find_common_range / is_in_band / '
                'demux / mux / Edfa.__call__ / Multiband_amplifier.__call__ over a chain single-band - two-band - single-band amplifiers '
                'with symbolic band edges',
    bounds=['k<=3 channels with symbolic frequency/slot/baud (construction)', '5 channels on fixed frequencies, 4 symbolic band edges pairs '
            '(chain harness)', 'per-channel attributes: label, tx_osnr, tx_power, delta_pdb, baud rate, slot width',
            'carrier dict of 2-3 (4 thorough) carriers in every order; merge of 1-3 (4 thorough) band pieces of 2 carriers each in every order'],
    assumptions=['floats as reals', 'amplifier physics stubbed to identity in the channel-set harness (gain/ASE are C04)',
                 'channel frequencies distinct'],
    stubs=['Edfa.propagate -> no-op in the chain harness'],
)


def h_construct(ctx, k, via):
    from gnpy.core.exceptions import SpectrumError
    from gnpy.core.info import SpectralInformation, create_arbitrary_spectral_information
    symbolic_ctors(ctx)
    f = [ctx.real(f'f{i}', lo=191.0e12, hi=196.0e12) for i in range(k)]
    slot = [ctx.real(f'slot{i}', lo=12.5e9, hi=150e9) for i in range(k)]
    baud = [ctx.real(f'baud{i}', lo=10e9, hi=150e9) for i in range(k)]
    for i in range(k):
        for j in range(i + 1, k):
            ctx.assume(Not(eq(f[i], f[j])) if ctx.mode == 'sym' else f[i] != f[j])
    labels = [f'ch{i}' for i in range(k)]
    txo = [30.0 + i for i in range(k)]
    txp = [1e-3 * (i + 1) for i in range(k)]
    off = [0.5 * i for i in range(k)]
    p = [ctx.real(f'p{i}', lo=0, lo_strict=True, hi=0.01) for i in range(k)]
    try:
        if via == 'init':
            z = np.zeros(k)
            si = SpectralInformation(frequency=arr(f), baud_rate=arr(baud), slot_width=arr(slot), pch=arr(p), signal_ratio=np.ones(k),
                                     ase_ratio=z.copy(), nli_ratio=z.copy(), roll_off=z.copy(), chromatic_dispersion=z.copy(),
                                     pmd=z.copy(), pdl=z.copy(), latency=z.copy(), delta_pdb_per_channel=np.array(off),
                                     tx_osnr=np.array(txo), tx_power=np.array(txp), label=np.array(labels, dtype=object))
        else:
            si = create_arbitrary_spectral_information(frequency=arr(f), pch=arr(p), baud_rate=arr(baud), tx_osnr=txo, tx_power=txp,
                                                       delta_pdb_per_channel=off, slot_width=arr(slot), label=labels)
        err = None
    except SpectrumError as e:
        si, err = None, e
    # ---- oracle from the statement
    order = list(range(k))
    for a in range(k):              # insertion sort by exact comparisons
        for b in range(k - 1 - a):
            if bool(f[order[b]] > f[order[b + 1]]):
                order[b], order[b + 1] = order[b + 1], order[b]
    overlap = any(bool(f[order[a]] + slot[order[a]] / 2 > f[order[a + 1]] - slot[order[a + 1]] / 2) for a in range(k - 1))
    exceed = any(bool(baud[i] > slot[i]) for i in range(k))
    if overlap or exceed:
        ctx.prove('overlapping channels or baud wider than slot are rejected with a spectrum error', err is not None,
                  info=dict(overlap=overlap, exceed=exceed))
        return
    ctx.prove('valid comb accepted in any supply order', err is None, info=dict(error=repr(err)))
    if err is not None:
        return
    for pos, i in enumerate(order):
        ctx.prove(f'frequency order [{pos}]', si.frequency[pos] is f[i] or bool(eq(si.frequency[pos], f[i])))
        ctx.prove(f'own attributes follow the carrier [{pos}]',
                  si.label[pos] == labels[i] and float(si.tx_osnr[pos]) == txo[i] and float(si.tx_power[pos]) == txp[i] and
                  float(si.delta_pdb_per_channel[pos]) == off[i] and bool(eq(si.baud_rate[pos], baud[i])) and
                  bool(eq(si.slot_width[pos], slot[i])) and bool(eq(si._pch[pos], p[i])),
                  info=dict(pos=pos, channel=i, label=str(si.label[pos])))
    ctx.prove('channel numbers', list(si.channel_number) == list(range(1, k + 1)))


CH_F = [191.5e12, 192.5e12, 193.5e12, 194.5e12, 195.5e12]
CH_SLOT = [50e9, 75e9, 50e9, 100e9, 50e9]
CH_BAUD = [32e9, 64e9, 32e9, 90e9, 42e9]


def h_chain(ctx, variant):
    """pre-propagation filter + propagation through single-band / two-band / single-band amplifiers: exactly the channels
    whose slot lies inside a band of every amplifier survive, once, in frequency order, with their own attributes"""
    from gnpy.core import elements as el_mod
    from gnpy.core.elements import Edfa
    from gnpy.topology.request import filter_si
    symbolic_ctors(ctx)
    eqpt = equipment('eqpt_config_multiband.json')
    els_json = [
        {'uid': 'amp1', 'type': 'Edfa', 'type_variety': 'std_medium_gain_C', 'operational': {'gain_target': 20.0, 'tilt_target': 0, 'out_voa': 0}},
        {'uid': 'amp2', 'type': 'Multiband_amplifier', 'type_variety': 'std_medium_gain_multiband',
         'amplifiers': [{'type_variety': 'std_medium_gain_C', 'operational': {'gain_target': 20.0, 'tilt_target': 0, 'out_voa': 0}},
                        {'type_variety': 'std_medium_gain_L', 'operational': {'gain_target': 20.0, 'tilt_target': 0, 'out_voa': 0}}]},
        {'uid': 'amp3', 'type': 'Edfa', 'type_variety': 'std_medium_gain_C', 'operational': {'gain_target': 20.0, 'tilt_target': 0, 'out_voa': 0}},
    ]
    _, by = build_elements(els_json, eqpt)
    amp1, amp2, amp3 = by['amp1'], by['amp2'], by['amp3']

    def edge(name, lo, hi):
        return ctx.real(name, lo=lo, hi=hi)
    # band edges around the fixed channels (edges may fall inside, between or exactly beside channel slots)
    a1, b1 = edge('amp1_fmin', 191.0e12, 193.0e12), edge('amp1_fmax', 194.0e12, 196.0e12)
    lo2, hi2 = edge('amp2_low_fmin', 191.0e12, 192.0e12), edge('amp2_low_fmax', 192.4e12, 193.2e12)
    lo3, hi3 = edge('amp2_high_fmin', 193.3e12, 194.0e12), edge('amp2_high_fmax', 194.4e12, 196.0e12)
    a4, b4 = edge('amp3_fmin', 191.0e12, 193.0e12), edge('amp3_fmax', 194.0e12, 196.0e12)
    amp1.params.bands = [{'f_min': a1, 'f_max': b1}]
    amp3.params.bands = [{'f_min': a4, 'f_max': b4}]
    inner = list(amp2.amplifiers.values())
    # dict order of the inner amplifiers is the library order (C then L); give the LOWER band to the second one so that the
    # re-merge has to re-sort (variant 'swapped'), or keep them in frequency order
    if variant == 'swapped':
        inner[0].params.bands = [{'f_min': lo3, 'f_max': hi3}]
        inner[1].params.bands = [{'f_min': lo2, 'f_max': hi2}]
        amp2.params.bands = [{'f_min': lo3, 'f_max': hi3}, {'f_min': lo2, 'f_max': hi2}]
    else:
        inner[0].params.bands = [{'f_min': lo2, 'f_max': hi2}]
        inner[1].params.bands = [{'f_min': lo3, 'f_max': hi3}]
        amp2.params.bands = [{'f_min': lo2, 'f_max': hi2}, {'f_min': lo3, 'f_max': hi3}]
    amps = [[(a1, b1)], [(lo2, hi2), (lo3, hi3)], [(a4, b4)]]
    k = len(CH_F)
    si = make_si(ctx, k, freqs=CH_F, slot_list=CH_SLOT, baud_list=CH_BAUD, noisy=False, pmax=1e-2,
                 delta_pdb=[0.5 * i for i in range(k)],
                 extra=dict(tx_osnr=np.array([30.0 + i for i in range(k)]), tx_power=np.array([1e-3 * (i + 1) for i in range(k)])))
    ref = dict(label=list(si.label), baud=list(si.baud_rate), slot=list(si.slot_width), txo=list(si.tx_osnr), txp=list(si.tx_power),
               off=list(si.delta_pdb_per_channel), p=list(si._pch))

    def inside(i, a, b):
        return bool(CH_F[i] - CH_SLOT[i] / 2 >= a) and bool(CH_F[i] + CH_SLOT[i] / 2 <= b)
    survivors = [i for i in range(k) if all(any(inside(i, a, b) for a, b in bands) for bands in amps)]
    orig_prop = Edfa.propagate
    Edfa.propagate = lambda self, spectral_info: None
    try:
        path = [amp1, amp2, amp3]
        try:
            cur = filter_si(path, eqpt, si)
            err = None
        except ValueError as e:
            cur, err = None, e
        if not survivors:
            ctx.prove('no channel in the common band: rejected', err is not None)
            return
        ctx.prove('filter succeeds when some channel fits', err is None, info=dict(error=repr(err)))
        if err is not None:
            return

        def check(tag, s):
            ctx.prove(f'{tag}: exactly the channels inside the common band(s), once each, in frequency order',
                      [float(x) for x in s.frequency] == [CH_F[i] for i in survivors],
                      info=dict(got=[float(x) for x in s.frequency], want=[CH_F[i] for i in survivors]))
            if [float(x) for x in s.frequency] != [CH_F[i] for i in survivors]:
                return False
            for pos, i in enumerate(survivors):
                ctx.prove(f'{tag}: channel keeps its own label, baud rate, slot width and transmitter data',
                          s.label[pos] == ref['label'][i] and s.baud_rate[pos] == ref['baud'][i] and s.slot_width[pos] == ref['slot'][i]
                          and s.tx_osnr[pos] == ref['txo'][i] and s.tx_power[pos] == ref['txp'][i]
                          and s.delta_pdb_per_channel[pos] == ref['off'][i] and s._pch[pos] is ref['p'][i],
                          info=dict(channel=i, pos=pos, tx_osnr=float(s.tx_osnr[pos])))
            return True
        if not check('after filter_si', cur):
            return
        for amp in path:
            cur = amp(cur)
            if not check(f'after {amp.uid}', cur):
                return
    finally:
        Edfa.propagate = orig_prop


def h_carriers(ctx, k):
    """carriers_to_spectral_information: the arbitrary carrier list of a request (dict frequency -> Carrier) supplied in every
    order, carriers all different, transmit powers symbolic: every channel keeps its own baud rate, slot width, roll-off,
    offset, transmitter OSNR/power and label"""
    from gnpy.core.info import carriers_to_spectral_information, Carrier
    symbolic_ctors(ctx)
    order = ctx.choice('supply order', list(itertools.permutations(range(k))))
    f = [193.0e12 + 150e9 * i for i in range(k)]
    spec = {}
    txp = [ctx.real(f'tx_power{i}', lo=0, lo_strict=True, hi=0.01) for i in range(k)]
    for i in order:
        spec[f[i]] = Carrier(delta_pdb=0.5 * i, baud_rate=(32 + 8 * i) * 1e9, slot_width=(50 + 12.5 * i) * 1e9, roll_off=0.1 + 0.01 * i,
                             tx_osnr=35.0 + i, tx_power=txp[i], label=f'ch{i}')
    si = carriers_to_spectral_information(spec, power=1e-3)
    ctx.prove('one channel per carrier, in frequency order', [float(x) for x in si.frequency] == f, info=dict(order=list(order)))
    for i in range(k):
        ctx.prove(f'carrier {i} keeps its own attributes',
                  si.label[i] == f'ch{i}' and float(si.baud_rate[i]) == (32 + 8 * i) * 1e9 and float(si.slot_width[i]) == (50 + 12.5 * i) * 1e9
                  and float(si.roll_off[i]) == 0.1 + 0.01 * i and float(si.delta_pdb_per_channel[i]) == 0.5 * i and
                  float(si.tx_osnr[i]) == 35.0 + i and bool(eq(si.tx_power[i], txp[i])) and bool(eq(si._pch[i], txp[i])),
                  info=dict(order=list(order), label=str(si.label[i]), baud=float(si.baud_rate[i])))


def h_mux_many(ctx, nbands):
    """muxed_spectral_information / demuxed_spectral_information with 1-4 band pieces given in every order (symbolic powers
    and shares): the merge holds every carrier of every piece exactly once, in frequency order, with its own state"""
    from gnpy.core.info import muxed_spectral_information
    symbolic_ctors(ctx)
    order = ctx.choice('order of the pieces', list(itertools.permutations(range(nbands))))
    pieces, ref = [], []
    for b in range(nbands):
        fr = [186.0e12 + 3.0e12 * b + 100e9 * j for j in range(2)]
        si = make_si(ctx, 2, tag=f'b{b}_', freqs=fr, labels=[f'b{b}c{j}' for j in range(2)])
        pieces.append(si)
        for j in range(2):
            ref.append((fr[j], f'b{b}c{j}', si._pch[j], si._signal_ratio[j], si._ase_ratio[j], si._nli_ratio[j]))
    out = muxed_spectral_information([pieces[b] for b in order])
    ref.sort(key=lambda r: r[0])
    ctx.prove('merge holds every carrier of every piece once, in frequency order',
              [float(x) for x in out.frequency] == [r[0] for r in ref] and list(out.label) == [r[1] for r in ref],
              info=dict(order=list(order), got=[str(x) for x in out.label]))
    if out.number_of_channels != len(ref):
        return
    for i, r in enumerate(ref):
        ctx.prove(f'carrier {r[1]} keeps its power and shares', And(eq(out._pch[i], r[2]), eq(out._signal_ratio[i], r[3]),
                                                                    eq(out._ase_ratio[i], r[4]), eq(out._nli_ratio[i], r[5])))


def jobs(tier):
    ks = [1, 2, 3] if tier == 'quick' else [1, 2, 3, 4]
    js = []
    for k in ks:
        for via in ('init', 'create_arbitrary'):
            js.append(dict(name=f'H7a:construct:{via}:k{k}', fn='h_construct', params=dict(k=k, via=via), cost=10 ** k,
                           witness_every=1 if k < 3 else 5, budget_s=200 if tier == 'quick' else 600))
    for k in ([2, 3] if tier == 'quick' else [2, 3, 4]):
        js.append(dict(name=f'H7c:carrier_list_any_order:k{k}', fn='h_carriers', params=dict(k=k), cost=20))
    for nb in ([1, 2, 3] if tier == 'quick' else [1, 2, 3, 4]):
        js.append(dict(name=f'H7d:mux_of_{nb}_bands_any_order', fn='h_mux_many', params=dict(nbands=nb), cost=20))
    for v in ('ordered', 'swapped'):
        js.append(dict(name=f'H7b:filter_and_amplifier_chain:{v}', fn='h_chain', params=dict(variant=v), cost=2000, witness_every=10,
                       budget_s=250 if tier == 'quick' else 600))
    return js
