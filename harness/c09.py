"""C09 — designed gains close the power budget and follow the documented power rule."""
from copy import deepcopy

from harness.common import *      # noqa
from harness import common, elems
from symx.core import SR, SI, Implies

setup = common.setup

META = dict(
    level='model_checking',
    explanation='symx: real target_power / round2float / span_loss (cached span loss symbolic) and real set_one_amplifier / '
                'compute_gain_power_and_tilt_target / set_amplifier_voa on a real booster-fibre-preamp line between two ROADMs, with '
                'symbolic span loss, slope, reference loss, range bounds, previous offset and VOA, reference total power, operator '
                'delta_p / gain / VOA and amplifier p_max; all arithmetic is linear real/integer (exact rounding), decided by z3',
    bounds=['one amplifier step from an arbitrary upstream state (previous delta_p, previous VOA): inductive step along an OMS of any length',
            'rounding step in {0.1, 0.5, 1.0, 0 (=0.01 resolution)}', 'amplifier type imposed in H9a-H9c',
            'H9c: two-span OMS (booster, in-line, preamp), span losses in [5, 35] dB, p_max in [15, 30] dBm, 40 channels, automatic output VOA on/off',
            'H9d: model auto-selected among 3 sub-libraries (EDFA only / with Raman hybrids / fixed gain + high power); span loss in [5, 45] dB, '
            '1-400 channels; 3 upstream states (7 thorough)',
            'transceiver-started OMS: SI tx_power_dbm absent or symbolic in [-5, 5] dBm, reference power 2 dBm',
            'H9e: fibre - fused (0.5 dB) - fibre with symbolic lengths in [1, 60] km each, padding 10 dB, range [-6, 3] step 0.5'],
    assumptions=['floats as reals (rounding to the step modelled exactly)', 'Raman gain estimate and SRS tilt deviation zero (no Raman '
                 'fibre; deviation_db=0)', 'propagation of the design comb reproducing these powers follows from C04/C05/C06 element steps'],
    stubs=['span loss injected through the design_span_loss cache attribute that span_loss() itself maintains'],
)


def _line(eqpt, amp_variety='std_medium_gain', operational=None):
    els, cx = [], []
    for s in 'AB':
        els += [{'uid': f'trx {s}', 'type': 'Transceiver'}, {'uid': f'roadm {s}', 'type': 'Roadm'}]
        cx += [{'from_node': f'trx {s}', 'to_node': f'roadm {s}'}, {'from_node': f'roadm {s}', 'to_node': f'trx {s}'}]
    op = operational or {}
    els += [{'uid': 'booster', 'type': 'Edfa', 'type_variety': amp_variety, 'operational': dict(op.get('booster', {}))},
            {'uid': 'fiber', 'type': 'Fiber', 'type_variety': 'SSMF',
             'params': {'length': 80, 'length_units': 'km', 'loss_coef': 0.2, 'con_in': 0.5, 'con_out': 0.5, 'att_in': 0}},
            {'uid': 'preamp', 'type': 'Edfa', 'type_variety': amp_variety, 'operational': dict(op.get('preamp', {}))}]
    names = ['roadm A', 'booster', 'fiber', 'preamp', 'roadm B']
    cx += [{'from_node': a, 'to_node': b} for a, b in zip(names[:-1], names[1:])]
    return build_elements(els, eqpt, connections=cx)


def _rule(ctx, loss, ref, slope, lo, hi, step):
    """documented rule: slope x (span loss - reference), rounded to the step, clamped to the range.  Returns the set of
    admissible values as a predicate on a candidate dp (rounding ties may go either way)."""
    x = (loss - ref) * slope

    def ok(dp):
        res = step if step >= 0.01 else 0.01
        # some multiple r of the resolution within half a resolution of x, clamped
        below, above = x - res / 2, x + res / 2
        # dp = clamp(r): either r inside the range and dp == r, or clamped at a bound
        n = (dp / res)
        is_multiple = eq(n, round(n)) if is_symbolic(n) else abs(n - round(n)) < 1e-9
        inside = And(ge(dp, below), le(dp, above), is_multiple, ge(dp, lo), le(dp, hi))
        at_lo = And(eq(dp, lo), le(below, lo))          # the rounded value is <= lo
        at_hi = And(eq(dp, hi), ge(above, hi))
        return Or(inside, at_lo, at_hi)
    return ok


def h_target_power(ctx, step, before):
    from gnpy.core.network import target_power
    eqpt = deepcopy(equipment())
    g, by = _line(eqpt)
    span = eqpt['Span']['default']
    loss = ctx.real('span_loss_db', lo=0, hi=45)
    slope = ctx.real('power_slope', lo=0, hi=1)
    ref = ctx.real('span_loss_ref', lo=10, hi=30)
    lo = ctx.real('range_min', lo=-6, hi=0)
    hi = ctx.real('range_max', lo=0, hi=6)
    span.power_slope, span.span_loss_ref = slope, ref
    span.delta_power_range_db = [lo, hi, step]
    by['fiber'].design_span_loss = loss
    node = by['fiber'] if before == 'fiber' else by['roadm B']
    dp = target_power(g, node, eqpt, 0)
    if before == 'roadm':
        ctx.prove('offset before a ROADM is 0', (dp == 0) is True or bool(eq(dp, 0)))
        return
    ctx.prove('offset inside the configured range', And(ge(dp, lo), le(dp, hi)), info=dict(step=step))
    ctx.prove('offset = slope x (span loss - reference) rounded to the step and clamped', _rule(ctx, loss, ref, slope, lo, hi, step)(dp),
              info=dict(step=step))


def h_one_amplifier(ctx, mode, operator):
    """one amplifier of an OMS from an arbitrary upstream state: gain = loss since the previous amplifier + change of target
    (+ VOAs); total design power <= p_max; operator settings kept unless saturating"""
    from gnpy.core.network import set_one_amplifier
    eqpt = deepcopy(equipment())
    span = eqpt['Span']['default']
    span.power_mode = (mode == 'power')
    op = {}
    user_dp = user_gain = user_voa = None
    if 'delta_p' in operator:
        user_dp = ctx.real('operator_delta_p', lo=-6, hi=6)
    if 'gain' in operator:
        user_gain = ctx.real('operator_gain', lo=5, hi=35)
    if 'voa' in operator:
        user_voa = ctx.real('operator_out_voa', lo=0, hi=5)
    op['preamp'] = {'delta_p': user_dp, 'gain_target': user_gain, 'out_voa': user_voa, 'tilt_target': 0}
    g, by = _line(eqpt, operational=op)
    amp, fiber, roadm = by['preamp'], by['fiber'], by['roadm B']
    loss = ctx.real('span_loss_db', lo=0, hi=45)
    fiber.design_span_loss = loss
    prev_dp = ctx.real('prev_delta_p', lo=-6, hi=6)
    prev_voa = ctx.real('prev_out_voa', lo=0, hi=5)
    pref_ch = ctx.real('pref_ch_dbm', lo=-10, hi=5)
    nch_db = ctx.real('10log10_nb_channels', lo=0, hi=20)
    pref_total = pref_ch + nch_db
    p_max = ctx.real('amp_p_max_dbm', lo=10, hi=30)
    eqpt['Edfa'][amp.params.type_variety].p_max = p_max
    amp.params.p_max = p_max
    dp, voa = set_one_amplifier(amp, fiber, roadm, span.power_mode, prev_voa, prev_dp, pref_ch, pref_total, g,
                                [amp.params.type_variety], eqpt, False)
    v = user_voa if user_voa is not None else 0
    info = dict(mode=mode, operator=operator)
    if mode == 'power':
        want_dp = user_dp if user_dp is not None else (0 + v)         # next node is a ROADM: rule gives 0 (+ own VOA)
        sat = bool(pref_total + want_dp > p_max)
        final_dp = (p_max - pref_total) if sat else want_dp
        ctx.prove('power mode: offset is the operator value / the rule, reduced only as needed for p_max', eq(amp.delta_p, final_dp), info=info)
        ctx.prove('power mode: total design power within p_max', le(pref_total + amp.delta_p, p_max), info=info)
        ctx.prove('power mode: gain = span loss + change of target + previous VOA',
                  eq(amp.effective_gain, loss + amp.delta_p - prev_dp + prev_voa), info=info)
        if not sat and user_dp is not None:
            ctx.prove('power mode: operator offset kept when it does not saturate', eq(amp.delta_p, user_dp), info=info)
    else:
        if user_gain is not None:
            pout = pref_total + prev_dp - loss - prev_voa + user_gain
            sat = bool(pout > p_max)
            final_gain = user_gain - (pout - p_max) if sat else user_gain
            ctx.prove('gain mode: operator gain kept unless total output would exceed p_max', eq(amp.effective_gain, final_gain), info=info)
            ctx.prove('gain mode: resulting total output within p_max',
                      le(pref_total + prev_dp - loss - prev_voa + amp.effective_gain, p_max), info=info)
        else:
            base = loss + v - prev_dp + prev_voa               # rule target before a ROADM is 0 (+ own VOA)
            pout = pref_total + prev_dp - loss - prev_voa + base
            final_gain = base - (pout - p_max) if bool(pout > p_max) else base
            ctx.prove('gain mode without operator gain: gain closes the budget to the rule target unless saturating',
                      eq(amp.effective_gain, final_gain), info=info)
        ctx.prove('gain mode: no power offset recorded', amp.delta_p is None, info=info)
        # the offset implied by the gain is what the next amplifier will see
        ctx.prove('gain mode: implied offset = previous offset - loss - previous VOA + gain', eq(dp, prev_dp - loss - prev_voa + amp.effective_gain), info=info)
    ctx.prove('output VOA as set by the operator (no automatic VOA for this model)', eq(amp.out_voa, v) if is_symbolic(v) else amp.out_voa == v, info=info)


def jobs(tier):
    js = []
    for step in (0.5, 0.1, 1.0, 0):
        js.append(dict(name=f'H9a:target_power:step{step}:before_fiber', fn='h_target_power', params=dict(step=step, before='fiber'), cost=20))
    js.append(dict(name='H9a:target_power:before_roadm', fn='h_target_power', params=dict(step=0.5, before='roadm'), cost=2))
    for mode, operators in (('power', [(), ('delta_p',), ('voa',), ('delta_p', 'voa')]),
                            ('gain', [('gain',), ('gain', 'voa'), ()])):
        for opr in operators:
            js.append(dict(name=f'H9b:one_amplifier:{mode}_mode:operator={"+".join(opr) or "none"}', fn='h_one_amplifier',
                           params=dict(mode=mode, operator=opr), cost=30))
    for mode in ('power', 'gain'):
        js.append(dict(name=f'H9c:oms_telescoping:{mode}_mode', fn='h_oms_telescoping', params=dict(mode=mode), cost=100,
                       budget_s=200 if tier == 'quick' else 600))
    states = [(0.0, 0.0, 0.0), (-2.0, 1.0, 2.0), (1.5, 0.0, -3.0)]
    if tier != 'quick':
        states += [(0.0, 1.0, 2.0), (-2.0, 0.0, -3.0), (1.5, 1.0, 0.0), (-4.0, 3.0, 1.0)]
    from harness import c06b
    for pol in ('pch', 'psd', 'psw'):      # the ROADM target the booster is designed against: own per-degree setting, else the node default
        js.append(dict(name=f'H9f:roadm_per_degree_target_used_by_the_design:{pol}', module='harness.c06b', fn='h_per_degree_targets',
                       params=dict(policy=pol), cost=5))
    js.append(dict(name='H9c:oms_telescoping:power_mode:from_transceiver', fn='h_oms_telescoping', params=dict(mode='power', start='transceiver'),
                   cost=100, budget_s=200 if tier == 'quick' else 600))
    js.append(dict(name='H9e:spliced_span_offset_rule', fn='h_spliced_span_rule', cost=60, budget_s=200 if tier == 'quick' else 600))
    for lib in SELECT_LIBS:
        for st in states:
            js.append(dict(name=f'H9d:auto_selected_amplifier:{lib}:prev_dp={st[0]},prev_voa={st[1]},pref={st[2]}dBm', fn='h_auto_selected',
                           params=dict(lib=lib, state=st), cost=80, budget_s=200 if tier == 'quick' else 600))
    return js


def h_oms_telescoping(ctx, mode, start='roadm'):
    """set_egress_amplifier over a two-span OMS (booster, in-line amplifier, preamp; types imposed) with symbolic span losses:
    at every amplifier gain = loss since the previous amplifier + change of target (+ VOAs), so the reference channel leaves it
    at reference power + its offset; offsets follow the documented rule (0 before the ROADM)"""
    from gnpy.core.network import (set_egress_amplifier, set_roadm_ref_carrier, set_roadm_per_degree_targets,
                                   set_per_degree_design_band, add_missing_fiber_attributes)
    from gnpy.topology.request import PathRequest
    eqpt = deepcopy(equipment())
    span = eqpt['Span']['default']
    span.power_mode = (mode == 'power')
    els, cx = [], []
    for s in 'AB':
        els += [{'uid': f'trx {s}', 'type': 'Transceiver'}, {'uid': f'roadm {s}', 'type': 'Roadm'}]
        cx += [{'from_node': f'trx {s}', 'to_node': f'roadm {s}'}, {'from_node': f'roadm {s}', 'to_node': f'trx {s}'}]
    fib = lambda u: {'uid': u, 'type': 'Fiber', 'type_variety': 'SSMF',       # noqa
                     'params': {'length': 80, 'length_units': 'km', 'loss_coef': 0.2, 'con_in': 0.5, 'con_out': 0.5, 'att_in': 0}}
    amp = lambda u: {'uid': u, 'type': 'Edfa', 'type_variety': 'std_medium_gain', 'operational': {}}      # noqa
    els += [amp('booster'), fib('fiber1'), amp('ila'), fib('fiber2'), amp('preamp')]
    # the line starts at ROADM A, or directly at transceiver A (plain terminal, no ROADM at that end)
    names = ['roadm A' if start == 'roadm' else 'trx A', 'booster', 'fiber1', 'ila', 'fiber2', 'preamp', 'roadm B']
    cx += [{'from_node': a, 'to_node': b} for a, b in zip(names[:-1], names[1:])]
    g, by = build_elements(els, eqpt, connections=cx)
    loss1 = ctx.real('span1_loss_db', lo=5, hi=35)
    loss2 = ctx.real('span2_loss_db', lo=5, hi=35)
    by['fiber1'].design_span_loss, by['fiber2'].design_span_loss = loss1, loss2
    p_max = ctx.real('amp_p_max_dbm', lo=15, hi=30)
    eqpt['Edfa']['std_medium_gain'].p_max = p_max
    auto_voa = ctx.choice('out_voa_auto', [False, True])
    eqpt['Edfa']['std_medium_gain'].out_voa_auto = auto_voa
    for u in ('booster', 'ila', 'preamp'):
        by[u].params.p_max = p_max
        by[u].params.out_voa_auto = auto_voa
    ref = PathRequest(request_id='ref', source='trx A', destination='trx B', bidir=False, trx_type='', trx_mode='', nodes_list=[],
                      loose_list=[], format='', path_bandwidth=0, effective_freq_slot=None, nb_channel=40, power=1e-3, tx_power=1e-3,
                      baud_rate=32e9, spacing=50e9, f_min=191.3e12, f_max=196.1e12, roll_off=0.15, tx_osnr=40, OSNR=11, bit_rate=100e9,
                      min_spacing=37.5e9, cost=1, penalties={}, equalization_offset_db=0)
    roadm = by['roadm A']
    for r in (by['roadm A'], by['roadm B']):
        set_roadm_ref_carrier(r, eqpt)
        set_roadm_per_degree_targets(r, g)
        set_per_degree_design_band(r, g, eqpt)
    if start == 'roadm':
        pref_ch = 0.0
        set_egress_amplifier(g, roadm, eqpt, pref_ch, False, ref)
        out_roadm = roadm.get_per_degree_ref_power(degree='booster')         # dBm of the reference channel out of the ROADM
    else:
        # transceiver power: not given (the reference power is used) or any value, 0 dBm included
        pref_ch = 2.0
        tx = ctx.choice('SI tx_power_dbm', ['none', 'given'])
        txp = ctx.real('tx_power_dbm', lo=-5, hi=5) if tx == 'given' else None
        eqpt['SI']['default'].tx_power_dbm = txp
        set_per_degree_design_band(by['trx A'], g, eqpt)
        set_egress_amplifier(g, by['trx A'], eqpt, pref_ch, False, ref)
        out_roadm = txp if txp is not None else pref_ch
    nch_db = 10 * __import__('math').log10(40)
    prev_dp, prev_voa = out_roadm - pref_ch, 0
    chain = [('booster', 0.0, 'fiber'), ('ila', loss1, 'fiber'), ('preamp', loss2, 'roadm')]
    for uid, loss, nxt in chain:
        a = by[uid]
        info = dict(mode=mode, amp=uid, out_voa_auto=auto_voa, start=start)
        if mode == 'power':
            ctx.prove(f'{uid}: gain = loss since previous amplifier + change of target + previous VOA',
                      eq(a.effective_gain, loss + a.delta_p - prev_dp + prev_voa), info=info)
            ctx.prove(f'{uid}: total design power within p_max', le(pref_ch + nch_db + a.delta_p, p_max + 1e-9), info=info)
            if nxt == 'roadm':
                ctx.prove(f'{uid}: offset before a ROADM is 0 unless reduced for p_max',
                          Or(eq(a.delta_p, a.out_voa), eq(pref_ch + nch_db + a.delta_p, p_max)), info=info)
            # reference channel leaves the amplifier (before its VOA) at reference power + offset
            p_ref_out = pref_ch + prev_dp - prev_voa - loss + a.effective_gain
            ctx.prove(f'{uid}: reference channel leaves at reference power + offset', eq(p_ref_out, pref_ch + a.delta_p), info=info)
            prev_dp = a.delta_p
        else:
            ctx.prove(f'{uid}: gain mode records no offset', a.delta_p is None, info=info)
            prev_dp = prev_dp - loss - prev_voa + a.effective_gain
        prev_voa = a.out_voa


SELECT_LIBS = {
    'edfa_only': ['std_low_gain', 'std_medium_gain', 'std_high_gain'],
    'with_raman': ['std_medium_gain', 'std_high_gain', 'hybrid_4pumps_lowgain', 'hybrid_4pumps_mediumgain'],
    'highpower+fixed': ['std_medium_gain', 'std_fixed_gain', 'high_power'],
}


def h_auto_selected(ctx, lib, state):
    """set_one_amplifier on an amplifier WITHOUT imposed model (power mode): whichever model select_edfa picks - Raman/hybrid
    included, the preceding fibre being eligible - the total design power stays within that model's p_max, the offset is
    never raised, and it is reduced only when the rule target would exceed p_max or the model's (extended) gain range"""
    from gnpy.core.network import set_one_amplifier
    symbolic_ctors(ctx)
    eqpt = deepcopy(equipment())
    span = eqpt['Span']['default']
    span.power_mode = True
    g, by = _line(eqpt)
    amp, fiber, roadm = by['preamp'], by['fiber'], by['roadm B']
    amp.params.type_variety = ''
    amp.type_variety = ''
    loss_lin = ctx.real('span_loss_lin', lo=10 ** 0.5, hi=10 ** 4.5)
    nch = ctx.real('nb_channels', lo=1, hi=400)
    loss, nch_db = 10 * elems.log10(ctx, loss_lin), 10 * elems.log10(ctx, nch)
    fiber.design_span_loss = loss
    prev_dp, prev_voa, pref_ch = state          # upstream offset, upstream VOA, reference channel power (dBm)
    pref_total = pref_ch + nch_db
    dp, voa = set_one_amplifier(amp, fiber, roadm, True, prev_voa, prev_dp, pref_ch, pref_total, g, SELECT_LIBS[lib], eqpt, False)
    chosen = amp.params.type_variety
    info = dict(lib=lib, chosen=chosen, prev_dp=prev_dp, prev_voa=prev_voa, pref_ch=pref_ch)
    ctx.prove('a model of the permitted list is selected', chosen in SELECT_LIBS[lib], info=info)
    if chosen not in SELECT_LIBS[lib]:
        return
    model = eqpt['Edfa'][chosen]
    ctx.prove('total design power within the selected model p_max', le(pref_total + amp.delta_p, model.p_max + 1e-9), info=info)
    ctx.prove('offset before a ROADM never raised above the rule (0)', le(amp.delta_p, 1e-9), info=info)
    want_gain = loss + 0 - prev_dp + prev_voa
    ctx.prove('gain = span loss + change of target + previous VOA', eq(amp.effective_gain, loss + amp.delta_p - prev_dp + prev_voa), info=info)
    fits = bool(pref_total <= model.p_max) and bool(want_gain <= model.gain_flatmax + span.target_extended_gain)
    if fits:
        ctx.prove('no reduction when the rule target fits the selected model', eq(amp.delta_p, 0), info=info)


def h_spliced_span_rule(ctx):
    """real add_missing_fiber_attributes + set_egress_amplifier on booster - fibre - fused - fibre - preamp with symbolic short
    lengths (the spliced span may need padding): the booster offset follows the documented rule applied to the loss of the
    WHOLE next span, padding included"""
    from gnpy.core.network import (set_egress_amplifier, set_roadm_ref_carrier, set_roadm_per_degree_targets,
                                   set_per_degree_design_band, add_missing_fiber_attributes)
    from gnpy.topology.request import PathRequest
    symbolic_ctors(ctx)
    elems.set_sim_params()
    eqpt = deepcopy(equipment())
    span = eqpt['Span']['default']
    span.power_mode = True
    span.delta_power_range_db = [-6, 3, 0.5]
    span.padding = 10
    span.EOL = 0
    els, cx = [], []
    for s in 'AB':
        els += [{'uid': f'trx {s}', 'type': 'Transceiver'}, {'uid': f'roadm {s}', 'type': 'Roadm'}]
        cx += [{'from_node': f'trx {s}', 'to_node': f'roadm {s}'}, {'from_node': f'roadm {s}', 'to_node': f'trx {s}'}]
    L1, L2 = ctx.real('fibre1_km', lo=1, hi=60), ctx.real('fibre2_km', lo=1, hi=60)
    fib = lambda u, L: {'uid': u, 'type': 'Fiber', 'type_variety': 'SSMF',       # noqa
                        'params': {'length': L, 'length_units': 'km', 'loss_coef': 0.2, 'con_in': 0.25, 'con_out': 0.25, 'att_in': 0}}
    amp = lambda u: {'uid': u, 'type': 'Edfa', 'type_variety': 'std_medium_gain', 'operational': {}}      # noqa
    els += [amp('booster'), fib('fiber1', L1), {'uid': 'splice', 'type': 'Fused', 'params': {'loss': 0.5}}, fib('fiber2', L2), amp('preamp')]
    names = ['roadm A', 'booster', 'fiber1', 'splice', 'fiber2', 'preamp', 'roadm B']
    cx += [{'from_node': a, 'to_node': b} for a, b in zip(names[:-1], names[1:])]
    g, by = build_elements(els, eqpt, connections=cx)
    add_missing_fiber_attributes(g, eqpt)
    ref = PathRequest(request_id='ref', source='trx A', destination='trx B', bidir=False, trx_type='', trx_mode='', nodes_list=[],
                      loose_list=[], format='', path_bandwidth=0, effective_freq_slot=None, nb_channel=40, power=1e-3, tx_power=1e-3,
                      baud_rate=32e9, spacing=50e9, f_min=191.3e12, f_max=196.1e12, roll_off=0.15, tx_osnr=40, OSNR=11, bit_rate=100e9,
                      min_spacing=37.5e9, cost=1, penalties={}, equalization_offset_db=0)
    for r in (by['roadm A'], by['roadm B']):
        set_roadm_ref_carrier(r, eqpt)
        set_roadm_per_degree_targets(r, g)
        set_per_degree_design_band(r, g, eqpt)
    set_egress_amplifier(g, by['roadm A'], eqpt, 0.0, False, ref)
    raw = 0.2 * L1 + 0.2 * L2 + 4 * 0.25 + 0.5
    padded = raw if bool(raw >= span.padding) else span.padding
    info = dict(padded_by=str(padded - raw))
    ctx.prove('whole spliced span has at least the padding loss',
              ge(by['fiber1'].loss + by['splice'].loss + by['fiber2'].loss, span.padding - 1e-9), info=info)
    ctx.prove('booster offset = slope x (loss of the whole next span incl. padding - reference), rounded and clamped',
              _rule(ctx, padded, span.span_loss_ref, span.power_slope, -6, 3, 0.5)(by['booster'].delta_p), info=info)
    ctx.prove('preamp offset before the ROADM is 0', eq(by['preamp'].delta_p, 0), info=info)
    ctx.prove('preamp gain closes the budget', eq(by['preamp'].effective_gain, padded + by['preamp'].delta_p - by['booster'].delta_p), info=info)
