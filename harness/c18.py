"""C18 — input documents mean the same thing in legacy and YANG form (CrossHair = symbolic execution with z3 of the real
converters on bounded symbolic documents), plus concrete-structure symx harnesses for alias expansion."""
import ast
import os
import re
import subprocess
import sys
import time

ROOT = os.path.dirname(os.path.dirname(os.path.abspath(__file__)))

META = dict(
    level='model_checking',
    explanation='CrossHair 0.0.110 (symbolic execution of Python with z3, per path under a time budget) on harness functions that call '
                'the real legacy<->YANG converters, the namespace stripping, the decimal dispatch and the other_name alias expansion on '
                'bounded symbolic documents (symbolic str/int/list/dict leaves); a counterexample is replayed by calling the harness '
                'function un-instrumented; "Confirmed over all paths" = decided within the bound, "Not confirmed" = no counterexample '
                'within the time box (bounded bug hunting), reported as undecided',
    bounds=['documents with <= 2 elements, dict/list leaves of length <= 2-4, strings <= 2-26 chars, ints within +-1e6',
            'per-condition time box 25 s (quick) / 120 s (thorough)', 'aliases: 1-2 other names of 1-2 characters for a Transceiver, an Edfa, a mode'],
    assumptions=['libyang validation (compiled) and file I/O are not part of the conversion semantics checked here',
                 'CPython float formatting/parsing (format(x, ".Nf"), float(str)) is trusted',
                 'a harness that ends "Not confirmed" gives bounded bug-hunting assurance only'],
    stubs=['yang_convert_utils.load_data not called (harnesses call the converter functions, not yang_to_legacy)'],
)

FUNCS = ['ns_prefix_only', 'degree_roundtrip', 'design_band_roundtrip', 'two_roadms_roundtrip', 'loss_coef_roundtrip', 'delta_power_range_roundtrip',
         'nf_coef_roundtrip', 'nf_coef_yang_order_irrelevant', 'nf_fit_coef_roundtrip', 'raman_coef_roundtrip',
         'none_empty_roundtrip', 'int_precision_dispatch', 'roadm_default_variety', 'transceiver_aliases', 'edfa_aliases', 'mode_aliases']


def _env():
    env = dict(os.environ)
    env['PYTHONPATH'] = ROOT + (':' + env['PYTHONPATH'] if env.get('PYTHONPATH') else '')
    env['PYTHONHASHSEED'] = '0'
    return env


def run_crosshair(job):
    """one CrossHair process for one harness function"""
    t0 = time.time()
    fn = job['target']
    mod = job.get('ch_module', 'harness.c18_ch')
    tmo = job.get('per_condition_timeout', 25)
    cmd = [sys.executable, '-m', 'crosshair', 'check', '--report_all', '--per_condition_timeout', str(tmo),
           '--per_path_timeout', str(job.get('per_path_timeout', 5)), '--unblock=subprocess.Popen', f'{mod}.{fn}']
    try:
        p = subprocess.run(cmd, capture_output=True, text=True, timeout=tmo * 3 + 60, env=_env(), cwd=ROOT)
        out = p.stdout + p.stderr
    except subprocess.TimeoutExpired as e:
        out = 'TIMEOUT ' + str(e)
    res = dict(harness=job['name'], kind='crosshair', paths=0, forks=0, obligations=1, discharged=0, undecided=[], violations=[],
               witnesses_validated=0, samples=[], solver_s=round(time.time() - t0, 2), functions=[f'{mod}.{fn} -> gnpy.tools.yang_convert_utils / json_io'],
               exhaustive=False, errors=[], queries=0, decisions=1, detail=out.strip()[-600:])
    # reachability witness: the harness function runs on a concrete in-bound input and returns True
    ok, err = _call_concrete(mod, fn, None)
    if ok is True:
        res['witnesses_validated'] = 1
        res['paths'] = 1
    elif err:
        res['errors'].append(f'harness function failed on its sample input: {err}')
    m = re.search(r'error: false when calling (\w+\(.*\)) \(which returns', out)
    if m:
        call = m.group(1)
        ok, err = _call_concrete(mod, fn, call)
        rec = dict(harness=job['name'], obligation=fn, values=dict(call=call), choices={}, params={}, kind='crosshair', module='harness.c18', ch_module=mod)
        if ok is False:
            res['violations'].append(rec)
        else:
            res['undecided'].append(dict(rec, why=f'CrossHair counterexample did not reproduce ({err})'))
        res['samples'].append(dict(counterexample=call))
    elif 'Confirmed over all paths' in out:
        res['discharged'] = 1
        res['exhaustive'] = True
        res['samples'].append(dict(function=fn, verdict='Confirmed over all paths'))
    elif re.search(r'error: (\w+): .* when calling (\w+\(.*\))', out):
        # an exception other than the documented ones escapes the real code: replay the call un-instrumented
        m3 = re.search(r'error: (\w+): .* when calling (\w+\(.*\))', out)
        exc, call = m3.group(1), m3.group(2)
        ok, err = _call_concrete(mod, fn, call)
        rec = dict(harness=job['name'], obligation=fn, values=dict(call=call, exception=exc), choices={}, params={}, kind='crosshair',
                   module='harness.c18', ch_module=mod)
        if ok is None and err and exc in err:
            res['violations'].append(rec)
        else:
            res['undecided'].append(dict(rec, why=f'CrossHair exception report did not reproduce ({ok}, {err})'))
        res['samples'].append(dict(counterexample=call, exception=exc))
    elif 'error:' in out:
        m2 = re.search(r'error: (.*)', out)
        res['undecided'].append(dict(harness=job['name'], obligation=fn, why='CrossHair reported: ' + (m2.group(1)[:300] if m2 else '?')))
    else:
        why = 'Not confirmed (no counterexample within the time box)' if 'Not confirmed' in out else \
            ('Unable to meet precondition' if 'Unable to meet precondition' in out else 'no verdict: ' + out.strip()[-200:])
        res['undecided'].append(dict(harness=job['name'], obligation=fn, why=why))
        res['samples'].append(dict(function=fn, verdict=why))
    res['wall_s'] = round(time.time() - t0, 2)
    return res


SAMPLES = {
    'ns_prefix_only': "ns_prefix_only('ab:Edfa')",
    'degree_roundtrip': "degree_roundtrip({'e': 1}, {}, {'w': 2}, 3)",
    'design_band_roundtrip': "design_band_roundtrip({'e': [1, 5]}, 3)",
    'two_roadms_roundtrip': "two_roadms_roundtrip(0, 1, 5, 0, True, True, 0, 2)",
    'loss_coef_roundtrip': "loss_coef_roundtrip([1, 2], [3, 4], 5)",
    'delta_power_range_roundtrip': "delta_power_range_roundtrip([(0, 1, 2)], [(3, 4, 5)])",
    'nf_coef_roundtrip': "nf_coef_roundtrip([[1, 2, 3]])",
    'nf_coef_yang_order_irrelevant': "nf_coef_yang_order_irrelevant([1, 2, 3], [0, 1, 2])",
    'nf_fit_coef_roundtrip': "nf_fit_coef_roundtrip([1, 2], [3])",
    'raman_coef_roundtrip': "raman_coef_roundtrip([1, 2], [3, 4], 5)",
    'raman_efficiency_roundtrip': "raman_efficiency_roundtrip([1, 2], [3, 4])",
    'none_empty_roundtrip': "none_empty_roundtrip(None, 'x', [2, 1])",
    'int_precision_dispatch': "int_precision_dispatch(0, 12)",
    'roadm_default_variety': "roadm_default_variety([True, False])",
    'transceiver_aliases': "transceiver_aliases(['a', 'b'], 'T')",
    'edfa_aliases': "edfa_aliases(['a', 'b'], 'T')",
    'mode_aliases': "mode_aliases(['a', 'b'], 'm')",
}


def _call_concrete(mod, fn, call):
    """evaluate a call expression of the harness function in a fresh interpreter (real code, no instrumentation)"""
    call = call or SAMPLES.get(fn)
    if call is None:
        return None, 'no sample'
    code = f'import sys\nfrom {mod} import *\nr = {call}\nsys.exit(0 if r is True else 7)\n'
    try:
        p = subprocess.run([sys.executable, '-c', code], capture_output=True, text=True, timeout=120, env=_env(), cwd=ROOT)
    except subprocess.TimeoutExpired:
        return None, 'timeout'
    if p.returncode == 0:
        return True, None
    if p.returncode == 7:
        return False, None
    return None, (p.stderr.strip().splitlines() or ['?'])[-1][:300]


def replay(rec):
    call = rec['values']['call']
    ok, err = _call_concrete(rec.get('ch_module', 'harness.c18_ch'), rec['obligation'], call)
    print(f"replay {call}: returns {ok} {err or ''}")
    if ok is False or (ok is None and rec['values'].get('exception') and rec['values']['exception'] in (err or '')):
        print(f"VIOLATION property={rec['property']} replay=evidence/replay/?")
        return 1
    return 0


def jobs(tier):
    tmo = 25 if tier == 'quick' else 120
    return [dict(name=f'CH18:{f}', kind='crosshair', fn='run_crosshair', target=f, per_condition_timeout=tmo,
                 budget_s=tmo * 3 + 120, cost=tmo) for f in FUNCS]
