"""C11 — every computed route is a real, loop-free, constraint-respecting shortest path."""
import itertools

from harness.common import *      # noqa
from harness import common
from harness.mesh import build_mesh, site_paths, elements_of, fibre_km, request, SHAPES

setup = common.setup

META = dict(
    level='model_checking',
    explanation='symx: real correct_json_route_list, compute_path_dsjctn (no disjunction) -> compute_constrained_path, explicit_path, '
                'ispart, networkx shortest_simple_paths / dijkstra_path and find_reversed_path on ROADM meshes built by the real loaders '
                '(network_from_json + build_oms_list) whose fibre lengths are symbolic reals: heap/sort comparisons fork, and for every '
                'leaf z3 decides minimality against every admissible simple path enumerated independently by the harness',
    bounds=['3-4 ROADM sites (5 thorough), every link bidirectional, symbolic length in [1, 1000] km per link (quick) / per direction (thorough)',
            'include lists of 0-2 ROADM names, LOOSE/STRICT, plus unknown names and transceiver names',
            'shortest = minimal fibre length up to 1 m (non-fibre hops carry a 0.01 m weight in the implementation)',
            'H11b: triangle and ring4 through add_missing_elements_in_network, one link up to 500 km (split into 1-6 spans), the others < 140 km',
            'H11c: pairs of requests of one disjunction group on triangle / ring4+chord / mesh4, each with its own include option',
            'H11b (in-line amplifier): triangle with one link given as two fibres (< 140 km each); H11d: ring5+chord, include lists of 3 ROADMs '
            'in all 6 orders, STRICT or LOOSE (time-boxed, not exhaustive in the quick tier)'],
    assumptions=['floats as reals', 'ties between equally long (partial) routes are excluded: fibre lengths in generic position '
                 '(the property does not rule on ties)'],
    stubs=[],
)

SLACK_M = 1.0      # metres


def _include_options(sites, src, dst):
    inner = [s for s in sites if s not in (src, dst)]
    opts = [((), ())]
    for s in inner:
        opts.append(((f'roadm {s}',), ('LOOSE',)))
        opts.append(((f'roadm {s}',), ('STRICT',)))
    for a, b in itertools.permutations(inner, 2):
        opts.append(((f'roadm {a}', f'roadm {b}'), ('STRICT', 'STRICT')))
        opts.append(((f'roadm {a}', f'roadm {b}'), ('LOOSE', 'LOOSE')))
    # source/destination repeated in the list, unknown names and a transceiver name (to be cleaned up)
    if inner:
        opts.append(((f'trx {src}', f'roadm {inner[0]}', f'trx {dst}'), ('STRICT', 'STRICT', 'STRICT')))
        opts.append((('site X', 'site Y', f'roadm {inner[0]}'), ('LOOSE', 'LOOSE', 'STRICT')))
        opts.append(((f'trx {inner[0]}', f'roadm {inner[-1]}'), ('LOOSE', 'LOOSE')))
        opts.append((('site X', f'roadm {inner[0]}'), ('STRICT', 'LOOSE')))
    # a destination-side ROADM as include (always satisfiable)
    opts.append(((f'roadm {dst}',), ('STRICT',)))
    # line elements: a fibre and an amplifier leaving the source site, and the same of the OPPOSITE direction (cannot be crossed)
    for x in sites:
        if x != src:
            opts.append(((f'fiber {src}{x}',), ('STRICT',)))
            opts.append(((f'edfa {src}{x}',), ('LOOSE',)))
            opts.append(((f'fiber {x}{src}',), ('STRICT',)))
            opts.append(((f'fiber {x}{src}', f'edfa {x}{src}'), ('LOOSE', 'LOOSE')))
    return opts


def h_route(ctx, shape, src, dst, symmetric=True, triples=False):
    from gnpy.core.elements import Roadm, Transceiver
    from gnpy.core.exceptions import ServiceError
    from gnpy.topology.request import correct_json_route_list, compute_path_dsjctn, find_reversed_path
    m = build_mesh(ctx, shape, symmetric_lengths=symmetric)
    opts = _include_options(m.sites, src, dst)
    if triples:
        # include lists of three ROADMs in every order (most of them cannot be crossed in that order)
        inner = [s for s in m.sites if s not in (src, dst)]
        opts = [(tuple(f'roadm {x}' for x in t), (h,) * 3) for t in itertools.permutations(inner, 3) for h in ('STRICT', 'LOOSE')]
    nodes, loose = ctx.choice('include', opts)
    rq = request('r1', src, dst, nodes, loose)
    info = dict(shape=shape, src=src, dst=dst, include=list(nodes), hop_types=list(loose))
    all_uid = set(m.by)
    trx = {u for u in m.by if u.startswith('trx ')}
    # ---- expected clean-up of the route list (documented behaviour: invalid LOOSE entries dropped, invalid STRICT -> error,
    #      source/destination silently removed)
    exp_nodes, exp_loose = list(nodes), list(loose)
    if exp_nodes and exp_nodes[0] == f'trx {src}':
        exp_nodes.pop(0), exp_loose.pop(0)
    if exp_nodes and exp_nodes[-1] == f'trx {dst}':
        exp_nodes.pop(), exp_loose.pop()
    invalid_strict = any((n not in all_uid or n in trx) and h == 'STRICT' for n, h in zip(exp_nodes, exp_loose))
    keep = [(n, h) for n, h in zip(exp_nodes, exp_loose) if n in all_uid and n not in trx]
    try:
        correct_json_route_list(m.graph, [rq])
        err = None
    except ServiceError as e:
        err = e
    if invalid_strict:
        ctx.prove('invalid STRICT include node is refused', err is not None, info=info)
        return
    ctx.prove('route list accepted', err is None, info=dict(info, error=repr(err)))
    if err is not None:
        return
    ctx.prove('route list cleaned: valid nodes kept with their own hop type, in order',
              list(zip(rq.nodes_list, rq.loose_list)) == keep, info=dict(info, got=list(zip(rq.nodes_list, rq.loose_list)), want=keep))
    inc = [n for n, _ in keep]
    strict = any(h == 'STRICT' for _, h in keep)
    paths = compute_path_dsjctn(m.graph, m.eqpt, [rq], [])
    got = paths[0]
    # ---- oracle: all simple routes, admissible = contain the include nodes in order
    routes = site_paths(m, src, dst)

    def admissible(sites):
        ids = elements_of(m, sites)
        j = 0
        for n in inc:
            if n not in ids[j:]:
                return False
            j = ids.index(n, j)
        return True
    adm = [r for r in routes if admissible(r)]
    if not adm and strict:
        ctx.prove('unsatisfiable STRICT constraint blocks with a no-path reason',
                  got == [] and getattr(rq, 'blocking_reason', None) == 'NO_PATH_WITH_CONSTRAINT', info=info)
        return
    cands = adm if adm else routes           # only LOOSE constraints unsatisfiable: dropped
    ids = [e.uid for e in got]
    info = dict(info, got=ids)
    ctx.prove('a route is returned', bool(got) and not hasattr(rq, 'blocking_reason'), info=info)
    if not got:
        return
    ctx.prove('starts at the source and ends at the destination transceiver', ids[0] == f'trx {src}' and ids[-1] == f'trx {dst}', info=info)
    ctx.prove('follows existing directed links', all(m.graph.has_edge(a, b) for a, b in zip(got[:-1], got[1:])), info=info)
    ctx.prove('visits no element twice', len(set(ids)) == len(ids), info=info)
    got_sites = [u.split(' ')[1] for u in ids if u.startswith('roadm ')]
    match = [r for r in routes if elements_of(m, r) == ids]
    ctx.prove('is one of the simple routes of the topology', len(match) == 1, info=info)
    if len(match) != 1:
        return
    if adm:
        ctx.prove('crosses the include nodes in order', admissible(match[0]), info=info)
    total = fibre_km(m, match[0]) * 1e3
    for alt in cands:
        if alt == match[0]:
            continue
        ctx.prove('no admissible route is shorter', le(total, fibre_km(m, alt) * 1e3 + SLACK_M), info=dict(info, alternative=alt))
    # reverse path of a bidirectional request: same sites in reverse
    rev = find_reversed_path(got)
    rev_sites = [e.uid.split(' ')[1] for e in rev if isinstance(e, Roadm)]
    ctx.prove('reverse path visits the same sites in reverse', rev_sites == list(reversed(got_sites)) and
              rev[0].uid == f'trx {dst}' and rev[-1].uid == f'trx {src}' and
              all(m.graph.has_edge(a, b) for a, b in zip(rev[:-1], rev[1:])), info=dict(info, reverse=[e.uid for e in rev]))


def h_route_after_split(ctx, shape, src, dst, long_link, two_fibres=False):
    """the same meshes taken through the real add_missing_elements_in_network, one link being long enough to be split
    (symbolic length up to 500 km; the number of spans forks): every edge leaving a fibre still weighs that fibre's length,
    and the route returned is the shortest by total fibre length"""
    from gnpy.core.elements import Fiber
    from gnpy.core.network import add_missing_elements_in_network
    from gnpy.topology.request import compute_path_dsjctn
    if two_fibres:
        # the designated link is given as two fibres plugged into each other (auto-design inserts the in-line amplifier)
        m = build_mesh(ctx, shape, symmetric_lengths=True, with_oms=False, hi_km=140, two_fibre_links={frozenset(long_link)})
    else:
        m = build_mesh(ctx, shape, symmetric_lengths=True, with_oms=False, long_links={frozenset(long_link): 500}, hi_km=140)
    add_missing_elements_in_network(m.graph, m.eqpt)
    info = dict(shape=shape, src=src, dst=dst, long_link=list(long_link))
    bad = []
    for a, b, w in m.graph.edges(data='weight'):
        want = a.params.length if isinstance(a, Fiber) else 0.01
        ok = bool(eq(w, want)) if (is_symbolic(w) or is_symbolic(want)) else abs(w - want) < 1e-9
        if not ok:
            bad.append((a.uid, b.uid, str(w)))
    ctx.prove('every edge leaving a fibre weighs that fibre length (others 0.01)', not bad, info=dict(info, bad_edges=bad[:4]))
    rq = request('r1', src, dst)
    got = compute_path_dsjctn(m.graph, m.eqpt, [rq], [])[0]
    ids = [e.uid for e in got]
    info = dict(info, got=ids)
    ctx.prove('a loop-free route between the transceivers over existing links', bool(got) and ids[0] == f'trx {src}' and
              ids[-1] == f'trx {dst}' and len(set(ids)) == len(ids) and all(m.graph.has_edge(a, b) for a, b in zip(got[:-1], got[1:])), info=info)
    if not got:
        return
    got_sites = [u.split(' ')[1] for u in ids if u.startswith('roadm ')]
    routes = site_paths(m, src, dst)
    ctx.prove('is one of the simple routes of the topology', got_sites in routes, info=info)
    if got_sites not in routes:
        return
    fibre_total = 0
    for e in got:
        if isinstance(e, Fiber):
            fibre_total = fibre_total + e.params.length
    ctx.prove('fibre spans of the route add up to the original link lengths', eq(fibre_total, fibre_km(m, got_sites) * 1e3), info=info)
    for alt in routes:
        if alt != got_sites:
            ctx.prove('no route is shorter', le(fibre_km(m, got_sites) * 1e3, fibre_km(m, alt) * 1e3 + SLACK_M), info=dict(info, alternative=alt))


def jobs(tier):
    js = []
    shapes = ['line3', 'triangle', 'ring4', 'square+tail'] if tier == 'quick' else list(SHAPES)
    for sh in shapes:
        n = SHAPES[sh][0]
        pairs = [('A', 'C')] if n == 3 else [('A', 'C'), ('A', 'D')]
        if tier != 'quick':
            pairs = pairs + [('B', 'A')]
        for s, d in pairs:
            js.append(dict(name=f'H11:route:{sh}:{s}->{d}', fn='h_route', params=dict(shape=sh, src=s, dst=d, symmetric=(tier == 'quick')),
                           witness_every=5, budget_s=150 if tier == 'quick' else 600, opts=dict(no_ties=True), cost=len(SHAPES[sh][1]) ** 3))
    for sh, s, d in (('triangle', 'A', 'C'), ('ring4', 'A', 'C')) + ((('square+tail', 'A', 'D'),) if tier != 'quick' else ()):
        for link in SHAPES[sh][1]:
            js.append(dict(name=f'H11b:route_after_split:{sh}:{s}->{d}:long={link[0]}{link[1]}', fn='h_route_after_split',
                           params=dict(shape=sh, src=s, dst=d, long_link=link), witness_every=5, budget_s=150 if tier == 'quick' else 600,
                           opts=dict(no_ties=True), cost=30))
    for link in SHAPES['triangle'][1]:
        js.append(dict(name=f'H11b:route_after_inline_amplifier:triangle:A->C:two_fibres={link[0]}{link[1]}', fn='h_route_after_split',
                       params=dict(shape='triangle', src='A', dst='C', long_link=link, two_fibres=True), witness_every=5,
                       budget_s=150 if tier == 'quick' else 600, opts=dict(no_ties=True), cost=30))
    js.append(dict(name='H11d:route:ring5+chord:A->C:three_include_nodes', fn='h_route',
                   params=dict(shape='ring5+chord', src='A', dst='C', symmetric=True, triples=True), witness_every=10,
                   budget_s=150 if tier == 'quick' else 600, opts=dict(no_ties=True), cost=300))
    js.append(dict(name='H11e:requests_differing_in_hop_types_are_not_merged', module='harness.c19', fn='h_aggregation', cost=5))
    from harness import c12
    js += c12.include_jobs(tier, 'H11c')
    return js
