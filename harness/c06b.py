"""C06 (b, c): exactly one equalisation policy is in force; per-degree targets populated from the node default."""
from harness.common import *      # noqa
from harness import common

setup = common.setup
KEYS = ['target_pch_out_db', 'target_psd_out_mWperGHz', 'target_out_mWperSlotWidth']


def _val(ctx, key, tag):
    if key == 'target_pch_out_db':
        return ctx.real(f'{tag}_pch_dbm', lo=-60, hi=30)          # any dBm value, 0 included
    return ctx.real(f'{tag}_{key[-8:]}', lo=0, lo_strict=True, hi=1)


def h_single_policy(ctx):
    """network_from_json on a ROADM whose element config defines a symbolic subset of the three equalisation keys, over
    a library default with exactly one: the element ends up with exactly one policy (element's if given, else the
    library's) or the load is rejected (more than one in the element)."""
    from copy import deepcopy
    from gnpy.core.exceptions import ConfigurationError, ParametersError, EquipmentConfigError
    from gnpy.tools.json_io import network_from_json, Roadm as JsonRoadm
    subset = ctx.choice('element_keys', [(), (0,), (1,), (2,), (0, 1), (0, 2), (1, 2), (0, 1, 2)])
    lib = ctx.choice('library_key', [0, 1, 2])
    eqpt = deepcopy(equipment())
    libval = _val(ctx, KEYS[lib], 'lib')
    base = {k: v for k, v in eqpt['Roadm']['default'].__dict__.items() if k not in KEYS}
    base[KEYS[lib]] = libval
    eqpt['Roadm']['default'] = JsonRoadm(**base)
    ctx.prove('library_roadm_has_one_policy', sum(hasattr(eqpt['Roadm']['default'], k) for k in KEYS) == 1)
    params = {}
    vals = {}
    for i in subset:
        vals[i] = _val(ctx, KEYS[i], 'el')
        params[KEYS[i]] = vals[i]
    el = {'uid': 'roadm', 'type': 'Roadm', 'params': params}
    try:
        g = network_from_json({'elements': [el], 'connections': []}, eqpt)
        roadm = next(iter(g.nodes()))
        err = None
    except (ConfigurationError, ParametersError) as e:
        roadm, err = None, e
    if len(subset) > 1:
        ctx.prove('two_policies_rejected', err is not None)
        return
    ctx.prove('valid_config_accepted', err is None)
    got = [roadm.target_pch_out_dbm, roadm.target_psd_out_mWperGHz, roadm.target_out_mWperSlotWidth]
    want_idx = subset[0] if subset else lib
    want_val = vals[want_idx] if subset else libval
    ctx.prove('exactly_one_policy_in_force', sum(x is not None for x in got) == 1)
    ctx.prove('policy_is_element_else_library', got[want_idx] is not None and bool(eq(got[want_idx], want_val))
              if not is_symbolic(got[want_idx]) else eq(got[want_idx], want_val))
    # the library loader itself refuses zero or several policies
    for keys in ((), (0, 1), (1, 2), (0, 1, 2)):
        kw = {k: v for k, v in base.items() if k not in KEYS}
        for i in keys:
            kw[KEYS[i]] = 1.0
        try:
            JsonRoadm(**kw)
            ok = True
        except EquipmentConfigError:
            ok = False
        ctx.prove(f'library_loader_rejects_{len(keys)}_policies', not ok)


def h_element_single_policy(ctx):
    """the element constructor itself (Roadm / RoadmParams, the API used by programs that build networks without the JSON
    loader): any two or three node-level policies together are refused, for every value; one is accepted and in force"""
    from gnpy.core.elements import Roadm
    from gnpy.core.exceptions import ParametersError, ConfigurationError
    from gnpy.core.parameters import RoadmParams
    subset = ctx.choice('element_keys', [(0,), (1,), (2,), (0, 1), (0, 2), (1, 2), (0, 1, 2)])
    base = {'add_drop_osnr': 38, 'pmd': 0, 'pdl': 0, 'restrictions': {'preamp_variety_list': [], 'booster_variety_list': []},
            'roadm-path-impairments': []}
    vals = {i: _val(ctx, KEYS[i], 'el') for i in subset}
    params = dict(base, **{KEYS[i]: vals[i] for i in subset})
    for how in ('RoadmParams', 'Roadm'):
        try:
            obj = RoadmParams(**params) if how == 'RoadmParams' else Roadm(uid='r', params=dict(params))
            err = None
        except (ParametersError, ConfigurationError) as e:
            obj, err = None, e
        info = dict(keys=[KEYS[i] for i in subset], via=how)
        if len(subset) > 1:
            ctx.prove('two or three policies in one element are refused', err is not None, info=info)
            continue
        ctx.prove('a single policy is accepted', err is None, info=dict(info, error=repr(err)))
        if err is None and how == 'Roadm':
            got = [obj.target_pch_out_dbm, obj.target_psd_out_mWperGHz, obj.target_out_mWperSlotWidth]
            ctx.prove('exactly that policy is in force', sum(x is not None for x in got) == 1 and got[subset[0]] is not None, info=info)


def h_per_degree_targets(ctx, policy):
    """set_roadm_per_degree_targets: every egress degree without its own setting receives the node default in exactly
    one of the three per-degree dicts, for every value of the default (0 dBm included); own settings are kept."""
    from gnpy.core.exceptions import ConfigurationError
    from gnpy.core.network import set_roadm_per_degree_targets
    key = {'pch': KEYS[0], 'psd': KEYS[1], 'psw': KEYS[2]}[policy]
    val = _val(ctx, key, 'node')
    own = ctx.choice('degree_with_own_setting', ['none', 'pch', 'psd', 'psw'])
    ownval = None
    params = {key: val}
    if own != 'none':
        ownkey = {'pch': 'per_degree_pch_out_db', 'psd': 'per_degree_psd_out_mWperGHz',
                  'psw': 'per_degree_psd_out_mWperSlotWidth'}[own]
        ownval = _val(ctx, {'pch': KEYS[0], 'psd': KEYS[1], 'psw': KEYS[2]}[own], 'own')
        params[ownkey] = {'f2': ownval}
    fib = {'type': 'Fiber', 'type_variety': 'SSMF', 'params': {'length': 50, 'length_units': 'km', 'loss_coef': 0.2,
                                                               'con_in': 0, 'con_out': 0, 'att_in': 0}}
    els = [{'uid': 'roadm', 'type': 'Roadm', 'params': params}, dict(fib, uid='f1'), dict(fib, uid='f2'),
           {'uid': 'trx', 'type': 'Transceiver'}]
    cx = [{'from_node': 'roadm', 'to_node': 'f1'}, {'from_node': 'roadm', 'to_node': 'f2'},
          {'from_node': 'roadm', 'to_node': 'trx'}, {'from_node': 'trx', 'to_node': 'roadm'}]
    g, by = build_elements(els, connections=cx)
    roadm = by['roadm']
    try:
        set_roadm_per_degree_targets(roadm, g)
        err = None
    except ConfigurationError as e:
        err = e
    ctx.prove(f'{policy}:node_default_accepted_for_every_value', err is None)
    if err is not None:
        return
    dicts = {'pch': roadm.per_degree_pch_out_dbm, 'psd': roadm.per_degree_pch_psd, 'psw': roadm.per_degree_pch_psw}
    for deg in ('f1', 'f2'):
        holders = [p for p, d in dicts.items() if deg in d]
        ctx.prove(f'{policy}:{deg}:exactly_one_policy_on_degree', len(holders) == 1)
        if len(holders) != 1:
            continue
        if deg == 'f2' and own != 'none':
            ctx.prove(f'{policy}:{deg}:own_setting_kept', holders[0] == own and (dicts[own][deg] is ownval))
        else:
            ctx.prove(f'{policy}:{deg}:receives_node_default', holders[0] == policy)
            ctx.prove(f'{policy}:{deg}:default_value', eq(dicts[policy][deg], val))
    ctx.prove(f'{policy}:transceiver_is_not_a_degree', not any('trx' in d for d in dicts.values()))


def jobs(tier):
    js = [dict(name='H6b:single_policy', module='harness.c06b', fn='h_single_policy'),
          dict(name='H6b:single_policy:element_constructor', module='harness.c06b', fn='h_element_single_policy')]
    for pol in ('pch', 'psd', 'psw'):
        js.append(dict(name=f'H6c:per_degree_targets:{pol}', module='harness.c06b', fn='h_per_degree_targets',
                       params=dict(policy=pol)))
    return js
