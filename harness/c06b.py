"""C06 (b, c): exactly one equalisation policy is in force; per-degree targets populated from the node default."""
from harness.common import *      # noqa
from harness import common

setup = common.setup
KEYS = ['target_pch_out_db', 'target_psd_out_mWperGHz', 'target_out_mWperSlotWidth']


def _val(ctx, key, tag):
    if key == 'target_pch_out_db':
        return ctx.real(f'{tag}_pch_dbm', lo=-60, hi=30)          # any dBm value, 0 included
    return ctx.real(f'{tag}_{key[-8:]}', lo=0, lo_strict=True, hi=1)


def h_single_policy(ctx):
    """network_from_json on a ROADM whose element config defines a symbolic subset of the three equalisation keys, over
    a library default with exactly one: the element ends up with exactly one policy (element's if given, else the
    library's) or the load is rejected (more than one in the element)."""
    from copy import deepcopy
    from gnpy.core.exceptions import ConfigurationError, ParametersError, EquipmentConfigError
    from gnpy.tools.json_io import network_from_json, Roadm as JsonRoadm
    subset = ctx.choice('element_keys', [(), (0,), (1,), (2,), (0, 1), (0, 2), (1, 2), (0, 1, 2)])
    lib = ctx.choice('library_key', [0, 1, 2])
    eqpt = deepcopy(equipment())
    libval = _val(ctx, KEYS[lib], 'lib')
    base = {k: v for k, v in eqpt['Roadm']['default'].__dict__.items() if k not in KEYS}
    base[KEYS[lib]] = libval
    eqpt['Roadm']['default'] = JsonRoadm(**base)
    ctx.prove('library_roadm_has_one_policy', sum(hasattr(eqpt['Roadm']['default'], k) for k in KEYS) == 1)
    params = {}
    vals = {}
    for i in subset:
        vals[i] = _val(ctx, KEYS[i], 'el')
        params[KEYS[i]] = vals[i]
    el = {'uid': 'roadm', 'type': 'Roadm', 'params': params}
    try:
        g = network_from_json({'elements': [el], 'connections': []}, eqpt)
        roadm = next(iter(g.nodes()))
        err = None
    except (ConfigurationError, ParametersError) as e:
        roadm, err = None, e
    if len(subset) > 1:
        ctx.prove('two_policies_rejected', err is not None)
        return
    ctx.prove('valid_config_accepted', err is None)
    got = [roadm.target_pch_out_dbm, roadm.target_psd_out_mWperGHz, roadm.target_out_mWperSlotWidth]
    want_idx = subset[0] if subset else lib
    want_val = vals[want_idx] if subset else libval
    ctx.prove('exactly_one_policy_in_force', sum(x is not None for x in got) == 1)
    ctx.prove('policy_is_element_else_library', got[want_idx] is not None and bool(eq(got[want_idx], want_val))
              if not is_symbolic(got[want_idx]) else eq(got[want_idx], want_val))
    # the library loader itself refuses zero or several policies
    for keys in ((), (0, 1), (1, 2), (0, 1, 2)):
        kw = {k: v for k, v in base.items() if k not in KEYS}
        for i in keys:
            kw[KEYS[i]] = 1.0
        try:
            JsonRoadm(**kw)
            ok = True
        except EquipmentConfigError:
            ok = False
        ctx.prove(f'library_loader_rejects_{len(keys)}_policies', not ok)


def h_element_single_policy(ctx):
    """the element constructor itself (Roadm / RoadmParams, the API used by programs that build networks without the JSON
    loader): any two or three node-level policies together are refused, for every value; one is accepted and in force"""
    from gnpy.core.elements import Roadm
    from gnpy.core.exceptions import ParametersError, ConfigurationError
    from gnpy.core.parameters import RoadmParams
    subset = ctx.choice('element_keys', [(0,), (1,), (2,), (0, 1), (0, 2), (1, 2), (0, 1, 2)])
    base = {'add_drop_osnr': 38, 'pmd': 0, 'pdl': 0, 'restrictions': {'preamp_variety_list': [], 'booster_variety_list': []},
            'roadm-path-impairments': []}
    vals = {i: _val(ctx, KEYS[i], 'el') for i in subset}
    params = dict(base, **{KEYS[i]: vals[i] for i in subset})
    for how in ('RoadmParams', 'Roadm'):
        try:
            obj = RoadmParams(**params) if how == 'RoadmParams' else Roadm(uid='r', params=dict(params))
            err = None
        except (ParametersError, ConfigurationError) as e:
            obj, err = None, e
        info = dict(keys=[KEYS[i] for i in subset], via=how)
        if len(subset) > 1:
            ctx.prove('two or three policies in one element are refused', err is not None, info=info)
            continue
        ctx.prove('a single policy is accepted', err is None, info=dict(info, error=repr(err)))
        if err is None and how == 'Roadm':
            got = [obj.target_pch_out_dbm, obj.target_psd_out_mWperGHz, obj.target_out_mWperSlotWidth]
            ctx.prove('exactly that policy is in force', sum(x is not None for x in got) == 1 and got[subset[0]] is not None, info=info)


def h_per_degree_targets(ctx, policy):
    """set_roadm_per_degree_targets: every egress degree without its own setting receives the node default in exactly
    one of the three per-degree dicts, for every value of the default (0 dBm included); own settings are kept."""
    from gnpy.core.exceptions import ConfigurationError
    from gnpy.core.network import set_roadm_per_degree_targets
    key = {'pch': KEYS[0], 'psd': KEYS[1], 'psw': KEYS[2]}[policy]
    val = _val(ctx, key, 'node')
    own = ctx.choice('degree_with_own_setting', ['none', 'pch', 'psd', 'psw'])
    ownval = None
    params = {key: val}
    if own != 'none':
        ownkey = {'pch': 'per_degree_pch_out_db', 'psd': 'per_degree_psd_out_mWperGHz',
                  'psw': 'per_degree_psd_out_mWperSlotWidth'}[own]
        ownval = _val(ctx, {'pch': KEYS[0], 'psd': KEYS[1], 'psw': KEYS[2]}[own], 'own')
        params[ownkey] = {'f2': ownval}
    fib = {'type': 'Fiber', 'type_variety': 'SSMF', 'params': {'length': 50, 'length_units': 'km', 'loss_coef': 0.2,
                                                               'con_in': 0, 'con_out': 0, 'att_in': 0}}
    els = [{'uid': 'roadm', 'type': 'Roadm', 'params': params}, dict(fib, uid='f1'), dict(fib, uid='f2'),
           {'uid': 'trx', 'type': 'Transceiver'}]
    cx = [{'from_node': 'roadm', 'to_node': 'f1'}, {'from_node': 'roadm', 'to_node': 'f2'},
          {'from_node': 'roadm', 'to_node': 'trx'}, {'from_node': 'trx', 'to_node': 'roadm'}]
    g, by = build_elements(els, connections=cx)
    roadm = by['roadm']
    try:
        set_roadm_per_degree_targets(roadm, g)
        err = None
    except ConfigurationError as e:
        err = e
    ctx.prove(f'{policy}:node_default_accepted_for_every_value', err is None)
    if err is not None:
        return
    dicts = {'pch': roadm.per_degree_pch_out_dbm, 'psd': roadm.per_degree_pch_psd, 'psw': roadm.per_degree_pch_psw}
    for deg in ('f1', 'f2'):
        holders = [p for p, d in dicts.items() if deg in d]
        ctx.prove(f'{policy}:{deg}:exactly_one_policy_on_degree', len(holders) == 1)
        if len(holders) != 1:
            continue
        if deg == 'f2' and own != 'none':
            ctx.prove(f'{policy}:{deg}:own_setting_kept', holders[0] == own and (dicts[own][deg] is ownval))
        else:
            ctx.prove(f'{policy}:{deg}:receives_node_default', holders[0] == policy)
            ctx.prove(f'{policy}:{deg}:default_value', eq(dicts[policy][deg], val))
    ctx.prove(f'{policy}:transceiver_is_not_a_degree', not any('trx' in d for d in dicts.values()))


def h_internal_paths(ctx):
    """set_roadm_internal_paths (design) + get_impairment: a ROADM model with two profiles per path type (different max loss);
    the operator selects, for one crossing (express, add or drop), the non-default profile through per_degree_impairments:
    every crossing then uses the profile selected for it, else the first profile of its type - and the max loss seen by
    propagation on that crossing is that profile's"""
    import numpy as np
    from copy import deepcopy
    from gnpy.core.network import set_roadm_internal_paths
    eqpt = deepcopy(equipment())
    base = eqpt['Roadm']['roadm_type_1']

    def prof(i, kind, maxloss):
        return {'roadm-path-impairments-id': i, f'roadm-{kind}-path': [{'frequency-range': {'lower-frequency': 191.3e12,
                'upper-frequency': 196.1e12}, 'roadm-pmd': 0, 'roadm-cd': 0, 'roadm-pdl': 0, 'roadm-inband-crosstalk': 0,
                'roadm-maxloss': maxloss, **({'roadm-osnr': 41, 'roadm-pmax': 2.5, 'roadm-noise-figure': 23} if kind != 'express' else {})}]}
    maxloss = {0: 16.5, 1: 11.5, 2: 11.0, 3: 6.0, 4: 4.0, 5: 9.0}
    kinds = {0: 'express', 1: 'add', 2: 'drop', 3: 'drop', 4: 'add', 5: 'express'}
    profiles = [prof(i, kinds[i], maxloss[i]) for i in range(6)]
    crossing = ctx.choice('crossing with an operator-selected profile', ['none', 'express w_in->e_out', 'express e_in->w_out',
                                                                           'add trx->e_out', 'add trx->w_out', 'drop w_in->trx', 'drop e_in->trx'])
    sel = {'express': 5, 'add': 4, 'drop': 3}
    per_degree = []
    chosen = None
    if crossing != 'none':
        kind, ends = crossing.split(' ')
        a, b = ends.split('->')
        chosen = (a, b, sel[kind])
        per_degree = [{'from_degree': a, 'to_degree': b, 'impairment_id': sel[kind]}]
    fib = {'type': 'Fiber', 'type_variety': 'SSMF', 'params': {'length': 50, 'length_units': 'km', 'loss_coef': 0.2, 'con_in': 0,
                                                               'con_out': 0, 'att_in': 0}}
    params = {'target_pch_out_db': -20, 'add_drop_osnr': 38, 'pmd': 0, 'pdl': 0,
              'restrictions': {'preamp_variety_list': [], 'booster_variety_list': []},
              'roadm-path-impairments': profiles, 'per_degree_impairments': per_degree}
    els = [{'uid': 'r', 'type': 'Roadm', 'params': params}, dict(fib, uid='w_in'), dict(fib, uid='e_in'), dict(fib, uid='w_out'),
           dict(fib, uid='e_out'), {'uid': 'trx', 'type': 'Transceiver'}]
    cx = [('w_in', 'r'), ('e_in', 'r'), ('r', 'w_out'), ('r', 'e_out'), ('trx', 'r'), ('r', 'trx')]
    g, by = build_elements(els, eqpt, connections=[{'from_node': a, 'to_node': b} for a, b in cx])
    roadm = by['r']
    set_roadm_internal_paths(roadm, g)
    f = np.array([193.0e12, 194.0e12])
    for a, b, kind, default in (('w_in', 'e_out', 'express', 0), ('e_in', 'w_out', 'express', 0), ('w_in', 'w_out', 'express', 0),
                                ('trx', 'e_out', 'add', 1), ('trx', 'w_out', 'add', 1), ('w_in', 'trx', 'drop', 2), ('e_in', 'trx', 'drop', 2)):
        want = chosen[2] if chosen and (a, b) == chosen[:2] else default
        pth = roadm.get_roadm_path(a, b)
        info = dict(selected=crossing, crossing=f'{a}->{b}', got_id=pth.impairment_id, want_id=want)
        ctx.prove(f'{kind} crossing {a}->{b}: path type and profile (operator-selected if any, else the first of its type)',
                  pth.path_type == kind and pth.impairment_id == want, info=info)
        got = roadm.get_impairment('roadm-maxloss', f, a, b)
        ctx.prove(f'{kind} crossing {a}->{b}: max loss applied by propagation is that profile\'s',
                  all(abs(float(x) - maxloss[want]) < 1e-9 for x in got), info=dict(info, maxloss=[float(x) for x in got]))


def jobs(tier):
    js = [dict(name='H6b:single_policy', module='harness.c06b', fn='h_single_policy'),
          dict(name='H6b:single_policy:element_constructor', module='harness.c06b', fn='h_element_single_policy'),
          dict(name='H6d:internal_paths_per_degree_profiles', module='harness.c06b', fn='h_internal_paths')]
    for pol in ('pch', 'psd', 'psw'):
        js.append(dict(name=f'H6c:per_degree_targets:{pol}', module='harness.c06b', fn='h_per_degree_targets',
                       params=dict(policy=pol)))
    return js
