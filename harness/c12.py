"""C12 — requests declared disjoint never share a link in either direction."""
import itertools

from harness.common import *      # noqa
from harness import common
from harness.mesh import build_mesh, site_paths, elements_of, request, SHAPES

setup = common.setup

META = dict(
    level='model_checking',
    explanation='symx: real compute_path_dsjctn (steps 1-5), isdisjoint, find_reversed_path, remove_candidate, ispart on ROADM meshes '
                'built by the real loaders with symbolic fibre lengths (the order of the candidate routes, hence the selected combination, '
                'is decided by forking on length comparisons); the oracle recomputes link sharing from the site sequence of every returned '
                'route and brute-forces the existence of a disjoint combination',
    bounds=['3-4 ROADM sites, bidirectional links, symbolic link lengths in generic position', '1 group of 2 or 3 requests, or 2 groups '
            'sharing a request; optional STRICT/LOOSE include node on the first request; nested and duplicate groups through '
            'deduplicate_disjunctions; pairs with an include option on every request (STRICT, LOOSE, unsatisfiable LOOSE, mixed hop types); '
            'three pair groups forming a cycle; link-only / node-only / both kinds of diversity'],
    assumptions=['floats as reals', 'no exact ties between route lengths', 'completeness (a disjoint solution is found whenever one exists) '
                 'is only claimed, as in the property, for a single pair of requests'],
    stubs=[],
)


def _links(sites):
    return {frozenset(p) for p in zip(sites[:-1], sites[1:])}


def h_disjoint(ctx, shape, reqs, groups, include_first=False, include_all=False, diversity_choice=False):
    from gnpy.core.exceptions import DisjunctionError
    from gnpy.topology.request import compute_path_dsjctn, correct_json_route_list, Disjunction, deduplicate_disjunctions
    m = build_mesh(ctx, shape, symmetric_lengths=True)
    rqs = []
    inc = {}
    for i, (rid, s, d) in enumerate(reqs):
        nodes, loose = (), ()
        if include_first and i == 0:
            inner = [x for x in m.sites if x not in (s, d)]
            opts = [((), ())] + [((f'roadm {x}',), (h,)) for x in inner for h in ('STRICT', 'LOOSE')]
            nodes, loose = ctx.choice('include of first request', opts)
        if include_all:
            # every request of the group carries its own include list: nothing, one inner ROADM (STRICT or LOOSE), or a LOOSE
            # pair that no route can cross in that order (destination ROADM first)
            inner = [x for x in m.sites if x not in (s, d)]
            opts = [((), ())] + [((f'roadm {x}',), (h,)) for x in inner for h in ('STRICT', 'LOOSE')] + \
                [((f'roadm {d}', f'roadm {inner[0]}'), ('LOOSE', 'LOOSE'))]
            if len(inner) >= 2:      # mixed hop types in one list
                opts += [((f'roadm {inner[0]}', f'roadm {inner[1]}'), ('STRICT', 'LOOSE')),
                         ((f'roadm {inner[1]}', f'roadm {inner[0]}'), ('LOOSE', 'STRICT'))]
            nodes, loose = ctx.choice(f'include of request {rid}', opts)
        inc[rid] = (list(nodes), list(loose))
        rqs.append(request(rid, s, d, nodes, loose))
    # kind of diversity asked for by each group: link and node (the usual 'node link'), link only, node only
    div = ctx.choice('diversity', [(True, True), (True, False), (False, True)]) if diversity_choice else (True, True)
    dis = [Disjunction(disjunction_id=f'g{j}', relaxable=False, link_diverse=div[0], node_diverse=div[1], disjunctions_req=list(g))
           for j, g in enumerate(groups)]
    correct_json_route_list(m.graph, rqs)
    dis = deduplicate_disjunctions(dis)          # as planning() does before computing the paths
    try:
        paths = compute_path_dsjctn(m.graph, m.eqpt, rqs, dis)
        err = None
    except DisjunctionError as e:
        paths, err = None, e
    routes = {rid: site_paths(m, s, d) for rid, s, d in reqs}

    def strict_ok(rid, sites, binding='all'):
        """route crosses the include nodes in order; binding='strict_only': only the hops typed STRICT are binding (what the
        statement demands of a returned route); 'all': every listed node as soon as one hop is STRICT (what the
        implementation enforces, used for the existence oracle so that it never asks for more solutions than the code keeps)"""
        nodes, loose = inc[rid]
        if 'STRICT' not in loose:
            return True
        if binding == 'strict_only':
            nodes = [n for n, h in zip(nodes, loose) if h == 'STRICT']
        ids = elements_of(m, sites)
        j = 0
        for n in nodes:
            if n not in ids[j:]:
                return False
            j = ids.index(n, j)
        return True

    def exists_solution():
        ids = [r[0] for r in reqs]
        for combo in itertools.product(*[routes[r] for r in ids]):
            sel = dict(zip(ids, combo))
            if not all(strict_ok(r, sel[r]) for r in ids):
                continue
            if all(not (_links(sel[a]) & _links(sel[b])) for g in groups for a, b in itertools.combinations(g, 2)):
                return True
        return False
    info = dict(shape=shape, requests=reqs, groups=groups, include=inc, diversity=div)
    if err is not None:
        mixed = any(len(set(l)) > 1 for _, l in inc.values())
        if len(reqs) == 2 and len(groups) == 1 and not mixed:
            ctx.prove('disjunction error only when no disjoint pair exists', not exists_solution(), info=info)
        else:
            ctx.prove('computation stops with a disjunction error (no overlapping result returned)', True, info=info)
        return
    got = {}
    for (rid, s, d), p in zip(reqs, paths):
        ids = [e.uid for e in p]
        sites = [u.split(' ')[1] for u in ids if u.startswith('roadm ')]
        got[rid] = sites
        ok = bool(p) and ids[0] == f'trx {s}' and ids[-1] == f'trx {d}' and len(set(ids)) == len(ids) and \
            all(m.graph.has_edge(a, b) for a, b in zip(p[:-1], p[1:]))
        ctx.prove(f'request {rid}: a valid loop-free route between its transceivers', ok, info=dict(info, route=ids))
        if not ok:
            return
        ctx.prove(f'request {rid}: STRICT include nodes respected', strict_ok(rid, sites, 'strict_only'), info=dict(info, route=ids))
    for g in groups:
        for a, b in itertools.combinations(g, 2):
            shared = _links(got[a]) & _links(got[b])
            ctx.prove('requests of a group share no ROADM-to-ROADM link in either direction', not shared,
                      info=dict(info, a=got[a], b=got[b], shared=[sorted(x) for x in shared]))


CASES = [
    # (name, shape, requests, groups, include option on first request)
    ('pair:triangle', 'triangle', [('1', 'A', 'C'), ('2', 'A', 'C')], [('1', '2')], True),
    ('pair:line3:no_solution', 'line3', [('1', 'A', 'C'), ('2', 'A', 'B')], [('1', '2')], False),
    ('pair:ring4', 'ring4', [('1', 'A', 'C'), ('2', 'A', 'C')], [('1', '2')], True),
    ('pair:ring4:other_ends', 'ring4', [('1', 'A', 'C'), ('2', 'B', 'D')], [('1', '2')], False),
    ('pair:square+tail', 'square+tail', [('1', 'A', 'D'), ('2', 'B', 'C')], [('1', '2')], True),
    ('triple:ring4+chord', 'ring4+chord', [('1', 'A', 'B'), ('2', 'A', 'B'), ('3', 'D', 'C')], [('1', '2', '3')], False),
    ('triple:mesh4:reverse_direction', 'mesh4', [('1', 'A', 'B'), ('2', 'A', 'B'), ('3', 'C', 'A')], [('1', '2', '3')], False),
    ('two_groups:ring4+chord', 'ring4+chord', [('1', 'B', 'D'), ('2', 'C', 'D'), ('3', 'B', 'A')], [('1', '2'), ('1', '3')], False),
    ('two_groups:mesh4', 'mesh4', [('1', 'B', 'D'), ('2', 'C', 'D'), ('3', 'B', 'A')], [('1', '2'), ('1', '3')], False),
    # a group contained in another one, and the same group declared twice (deduplicate_disjunctions runs first)
    ('nested_groups:mesh4', 'mesh4', [('1', 'A', 'B'), ('2', 'A', 'B'), ('3', 'C', 'A')], [('2', '3'), ('1', '2', '3')], False),
    ('nested_groups:ring4+chord', 'ring4+chord', [('1', 'A', 'B'), ('2', 'A', 'B'), ('3', 'D', 'C')], [('1', '2', '3'), ('1', '2')], False),
    ('duplicate_group:ring4', 'ring4', [('1', 'A', 'C'), ('2', 'A', 'C')], [('1', '2'), ('2', '1')], False),
    # three pair groups forming a cycle: the last group finds both its requests already routed by the first two
    ('cycle_of_pairs:mesh4', 'mesh4', [('1', 'A', 'D'), ('2', 'B', 'D'), ('3', 'A', 'C')], [('1', '2'), ('2', '3'), ('1', '3')], False),
    ('cycle_of_pairs:ring4+chord', 'ring4+chord', [('1', 'A', 'C'), ('2', 'B', 'C'), ('3', 'A', 'D')], [('1', '2'), ('2', '3'), ('1', '3')], False),
    ('cycle_of_pairs:ring4', 'ring4', [('1', 'A', 'C'), ('2', 'B', 'C'), ('3', 'A', 'B')], [('1', '2'), ('2', '3'), ('1', '3')], False),
]


def jobs(tier):
    js = []
    for name, shape, reqs, groups, incl in CASES:
        js.append(dict(name=f'H12:{name}', fn='h_disjoint', params=dict(shape=shape, reqs=reqs, groups=groups, include_first=incl),
                       witness_every=5, budget_s=200 if tier == 'quick' else 600, opts=dict(no_ties=True),
                       cost=len(SHAPES[shape][1]) ** 3))
    for name, shape, reqs, groups in (('pair:ring4', 'ring4', [('1', 'A', 'C'), ('2', 'A', 'C')], [('1', '2')]),
                                      ('triple:mesh4', 'mesh4', [('1', 'A', 'B'), ('2', 'A', 'B'), ('3', 'C', 'A')], [('1', '2', '3')])):
        js.append(dict(name=f'H12:diversity_kinds:{name}', fn='h_disjoint', params=dict(shape=shape, reqs=reqs, groups=groups, diversity_choice=True),
                       witness_every=5, budget_s=200 if tier == 'quick' else 600, opts=dict(no_ties=True), cost=len(SHAPES[shape][1]) ** 3))
    js += include_jobs(tier, 'H12')
    return js


def include_jobs(tier, prefix):
    """pairs of requests of one group each with its own include list (also registered under C11: include nodes are respected
    inside disjunction groups too)"""
    js = []
    for name, shape, reqs in (('triangle', 'triangle', [('1', 'A', 'C'), ('2', 'A', 'C')]),
                              ('ring4+chord', 'ring4+chord', [('1', 'A', 'C'), ('2', 'A', 'C')]),
                              ('mesh4', 'mesh4', [('1', 'A', 'D'), ('2', 'A', 'D')])):
        js.append(dict(name=f'{prefix}:group_includes:{name}', module='harness.c12', fn='h_disjoint',
                       params=dict(shape=shape, reqs=reqs, groups=[('1', '2')], include_all=True),
                       witness_every=5, budget_s=200 if tier == 'quick' else 600, opts=dict(no_ties=True),
                       cost=len(SHAPES[shape][1]) ** 3))
    return js
