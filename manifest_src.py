"""single source for MANIFEST.json (run bin/mkmanifest after editing)"""

CLAIMED = {
    # id: (engine, technique, level text, level note, design ref)
    'C01': ('symx',
            'bounded symbolic execution of the real numpy code with z3 (operator-overloaded object arrays), '
            'inductive element step, solver models replayed on the float code',
            'Every SpectralInformation mutator and every element __call__ is executed symbolically from an arbitrary valid '
            'state (all positive powers, all valid signal/ASE/NLI splits, k<=3 channels; 5 thorough) and z3 decides that the '
            'split invariant and the power bookkeeping hold on the post-state on every path; one inductive step covers '
            'histories of any length. The reported-ratio identity also with the ASE (or NLI) share exactly zero; after an amplifier '
            'call the input spectrum object still carries its own split (no aliasing); a constructed object holds exactly the shares it was '
            'given; merging 1-4 band pieces in any order keeps every carrier once.',
            'floats modelled as reals; bounds on channel count; z3, symx operator overloading, numpy object dispatch trusted',
            'DESIGN.md §2 C01'),
    'C02': ('symx',
            'bounded symbolic execution of the real element __call__ methods with z3; cross-multiplied monotonicity obligations; '
            'models replayed on the float code',
            'From an arbitrary valid state, one real element call (Roadm, Fused, Fiber with real NliSolver, every Edfa type_def); z3 '
            'decides GSNR/OSNR_ASE/SNR_NLI non-increase, equality for passive elements, ASE-only for amplifiers, NLI-only for fibres, '
            'for all powers/splits/gains/losses within the bound (k<=3; 6 thorough). GGN methods with NLI computed on a subset of the '
            'channels: for arbitrary non-negative efficiencies of the computed channels (stub for the numerical integrals) the real '
            'compute_nli gives no channel a negative NLI; rebuilding a spectrum keeps every share however small.',
            'floats as reals; Raman off; flat amplifier profile; concrete fibre types; z3 and symx trusted',
            'DESIGN.md §2 C02'),
    'C06': ('symx',
            'bounded symbolic execution of Roadm.propagate / target resolution / policy plumbing with z3 (exact dB algebra in '
            'log-linear normal form); models replayed on the float code',
            'Roadm.__call__ for 3 node policies x 4 per-degree overrides with symbolic targets, offsets, per-band max-loss and '
            'input powers: output = min(target*offset, input/loss) and never above input on all 2^k*2 paths; single-policy '
            'enforcement through network_from_json/RoadmParams/json_io.Roadm for every subset of keys; per-degree target '
            'population for every value of the node default.',
            'floats as reals; k<=3 (6 thorough); fixed baud/slot mix; z3 and symx trusted',
            'DESIGN.md §2 C06'),
    'C03': ('symx',
            'bounded symbolic execution of the real NliSolver analytic-GN code with z3; asinh/exp abstracted with exact '
            'rational-function congruence; polynomial identity against the published closed form; models replayed on the float code',
            'compute_nli/_gn_analytic/_psi with symbolic powers, baud rates, spacings and flat alpha/beta2(+-)/gamma/length equal '
            'eq. 120/123 of arXiv:1209.0394 entry by entry (SPM 16/27, XPM 32/27, asinh kernel, L_eff) for uniform and mixed combs, k<=3 '
            '(6 thorough); cube law, eta independent of powers and of other channels, eta>=0 (=> NLI>=0, monotone in powers and under '
            'adding a channel), independence of supply order; real Fiber objects incl. modify-and-recompute histories.',
            'floats as reals; analytic GN only (GGN outside); asinh/exp abstraction sound for unsat; fibre stub in the fully symbolic harness',
            'DESIGN.md §2 C03'),
    'C04': ('symx',
            'bounded symbolic execution of the real Edfa code (clamp, NF models, ASE, flat gain profile) with z3; exact dB algebra; '
            'models replayed on the float code',
            'Edfa.__call__ of every library type_def with symbolic set gain, VOAs, p_max, input powers/splits (k<=3 + out-of-band '
            'channel): effective gain = min(set, p_max - Pin), G*Pin <= p_max, out = (in+h.f.B.NF)*G/VOA per share, out-of-band '
            'channels dropped; NF(gain_flatmax)=nf_min, NF(gain_min)=nf_max, monotone, dB-for-dB below gain_min, Friis for dual stage; '
            'estimate_nf_model on symbolic datasheets (thorough). Symbolic lower band edge around the first carrier (slot inside / '
            'straddling / outside, one carrier left); the same instance after another comb of equal channel count equals a fresh one; '
            'OpenROADM noise masks for a symbolic total input power on 50/75/100 GHz grids.',
            'floats as reals; flat profile only (tilt/ripple normalisation is an approximation, outside the claim); math.isclose by '
            'its real definition',
            'DESIGN.md §2 C04'),
    'C05': ('symx',
            'bounded symbolic execution of the real Fiber/Roadm/Edfa propagation and of the Raman solver (coupling stubbed to zero) '
            'with z3; models replayed on the float code',
            'Fiber.propagate (Raman off) on concrete fibres with symbolic pads/connectors/powers and accumulated CD/PMD/latency: output '
            '= input / (att_in+con_in+loss_coef*L+lumped+con_out), CD and latency additive, PMD/PDL in quadrature, all 6 orders of '
            'Fiber-Roadm-Edfa give the same totals; Raman ON (perturbative order 1-2, numerical) with zero coupling and symbolic lumped '
            'losses (on and off the solver grid) reduces to exp(-aL) * each lumped loss exactly once; latency of the spans made by '
            'split_fiber adds up to that of the original fibre (symbolic length); first-order perturbative Raman solution with symbolic '
            'coupling coefficients and per-frequency loss.',
            'floats as reals; concrete fibre variants; Raman sub-claims about method agreement, orders 3-4, iterative co/counter solver '
            'and pump gain are outside the technique (no bounded exact assertion); Fiber.cr and interp1d stubbed in H5c',
            'DESIGN.md §2 C05'),
    'C07': ('symx',
            'bounded symbolic execution of the real spectrum construction, band filtering and amplifier dispatch code with z3; models '
            'replayed on the float code',
            'SpectralInformation construction (direct and create_arbitrary) with symbolic frequency/slot/baud in every supply order: '
            'overlap or baud>slot => SpectrumError, otherwise sorted with every attribute on its own carrier (k<=3; 4 thorough); filter_si '
            '+ Edfa/Multiband_amplifier/Edfa chain with symbolic band edges: exactly the channels inside a band of every amplifier '
            'survive, once, in frequency order, attributes intact (all ~3.7k edge orderings).',
            'floats as reals; amplifier physics stubbed in the chain harness; 5 fixed channel positions there',
            'DESIGN.md §2 C07'),
    'C08': ('symx',
            'bounded symbolic execution of the real span-splitting and connector/padding completion code with z3; real auto-design '
            'pipeline executed on a grammar of topology shapes with structure obligations on every leaf',
            'calculate_new_length/split_fiber for every fibre length in (0,1000] km: equal spans summing to the original, split iff longer '
            'than the maximum, none longer than it; add_missing_fiber_attributes with symbolic lengths, loss coefficients, user pads and '
            'connectors, padding, EOL and defaults: connectors completed, EOL once, every amplifier-to-amplifier span >= padding, first fibre '
            'padded by exactly the deficit (single, spliced, two-span lines); designed_network on 5 shapes x 8 line flavours: every '
            'amplifier complete, junctions amplified, one-in/one-out chains, unique names, reachability unchanged; also with a transceiver '
            'plugged straight onto a line and max_length given in metres; split of per-frequency-loss, per-frequency-dispersion and '
            'lumped-loss fibres keeps loss/dispersion over the spectrum (known finding: lumped losses duplicated, see known_findings.json); a '
            'RamanFiber span in every position relative to amplifiers; select_edfa never fails internally.',
            'floats as reals; pipeline-level harness uses concrete parameters per shape (structure obligations), shapes listed in the evidence',
            'DESIGN.md §2 C08'),
    'C09': ('symx',
            'bounded symbolic execution of the real design-rule code with z3 (linear real/integer arithmetic, exact rounding); models '
            'replayed on the float code',
            'target_power for symbolic span loss, slope, reference loss and range bounds (steps 0.1/0.5/1/0.01): result = slope x (loss - '
            'ref) rounded to the step and clamped, always inside the range, 0 before a ROADM; set_one_amplifier from an arbitrary upstream '
            'state in power mode (with/without operator delta_p and VOA) and gain mode: gain = loss since previous amplifier + change of '
            'target + VOAs, total design power <= p_max, operator gain/offset kept unless saturating (inductive step along an OMS); '
            'set_egress_amplifier over a two-span OMS with symbolic span losses and automatic output VOA on/off: gains telescope; '
            'auto-selected model (EDFA, Raman/hybrid, fixed-gain sub-libraries): total design power <= p_max of the model picked; OMS starting '
            'at a transceiver with symbolic tx_power_dbm; spliced span with symbolic lengths: offset rule on the padded loss of the whole span.',
            'floats as reals; imposed amplifier type; no Raman gain / SRS deviation; span loss injected via the design_span_loss cache',
            'DESIGN.md §2 C09'),
    'C10': ('symx',
            'bounded symbolic execution of the real amplifier selection code with z3 (symbolic gain/power/allowance, real NF model per '
            'candidate); discrete precedence situations enumerated with symbolic design-band edges; models replayed on the float code',
            'select_edfa over sub-libraries of the shipped equipment (3-4 models incl. Raman hybrids) for all required gains, powers and '
            'extended-gain allowances in the bound: result permitted, capable whenever some permitted model is, and no capable model has a '
            'lower NF at that gain; get_node_restrictions follows own list > booster list > preamp list > allowed_for_design and the band '
            'filter for symbolic band edges; Raman models only after fibres whose whole loss table is below the limit (real design run); '
            'preselect_multiband_amps keeps every group that delivers within the extended-gain allowance (synthetic two-group library).',
            'floats as reals; exact capability boundaries excluded; NF model itself is C04; sub-libraries listed in the evidence',
            'DESIGN.md §2 C10'),
    'C11': ('symx',
            'bounded symbolic execution of the real routing code (incl. networkx shortest paths) over meshes with symbolic fibre lengths; '
            'z3 decides minimality against every admissible simple route; models replayed on the float code',
            'For every include-list option (LOOSE/STRICT, unknown names, transceiver names, repeated endpoints) on 3-4 site meshes (5 '
            'thorough) with symbolic link lengths: the route list is cleaned as documented, the returned route starts/ends at the right '
            'transceivers, follows directed links, is loop-free, crosses the include nodes in order, and no admissible simple route is '
            'shorter (all length orderings explored by forking, each obligation a linear-arithmetic z3 query); unsatisfiable STRICT => '
            'NO_PATH_WITH_CONSTRAINT, unsatisfiable LOOSE => unconstrained optimum; reverse path visits the same sites reversed. After the '
            'real add_missing_elements_in_network split a link (symbolic length <= 500 km) edge weights still equal fibre lengths and the '
            'route is the shortest (also after add_inline_amplifier between two fibres); include lists on both requests of a disjunction group '
            'and lists of three ROADMs in every order are respected.',
            'floats as reals; lengths in generic position (no exact ties); minimality up to 1 m; shapes listed in the evidence',
            'DESIGN.md §2 C11'),
    'C12': ('symx',
            'bounded symbolic execution of the real compute_path_dsjctn over meshes with symbolic fibre lengths; oracle recomputed '
            'from site sequences; brute-force existence for the completeness claim',
            'Groups of 2 and 3 requests and two groups sharing a request on 3-4 site meshes: every returned combination is link-disjoint '
            'in both directions and respects STRICT include nodes for every ordering of the candidate routes (symbolic lengths); a '
            'DisjunctionError for a single pair only when no disjoint pair exists. Groups pass through deduplicate_disjunctions (nested and '
            'duplicate groups, cycles of pair groups, link/node/both diversity); include lists on every request incl. mixed STRICT/LOOSE hop types.',
            'floats as reals; generic lengths; 9 request/group configurations listed in the evidence',
            'DESIGN.md §2 C12'),
    'C13': ('symx',
            'bounded symbolic execution of the real receiver / propagate / mode-selection / verdict code with z3 (dB values through an '
            'invertible 10**x abstraction, round(.,2) modelled exactly over the reals+ints); models replayed on the float code',
            'update_snr counts each added OSNR exactly once and never accumulates over repeated calls (1-3 contributions, up to 3 calls, '
            'symbolic values); on a real Transceiver-Roadm-line-Roadm-Transceiver path with an environment stub for the line, the verdict '
            'of compute_path_with_disjunction is feasible <=> min_i(GSNR_0.1nm - penalty) >= OSNR + margin outside the +-0.005 rounding '
            'band, for both directions when bidirectional, impairments outside the penalty table block, auto mode = first feasible mode in '
            '(baud, bit rate) order among those fitting the spacing, each mode with its own transmitter OSNR (differential against the mode '
            'imposed); impairments above and below the table block; penalty tables normalised at load.',
            'floats as reals; 2-4 channels; concrete penalty tables and tx/add-drop OSNR in the verdict harness; LineStub environment stub',
            'DESIGN.md §2 C13'),
    'C15': ('symx+fp-lemma',
            'bounded symbolic execution of the real OMS/bitmap construction code with z3 (symbolic cells, symbolic slot numbers '
            'value-forked) plus bit-precise QF_BVFP lemmas (z3 and cvc5) translated from the current source of the index conversions',
            'align_grids/insert_left/insert_right keep indices contiguous+unique and every cell at its slot; create_oms_bitmap + '
            'update_spectrum succeed and mark FREE exactly the slots common to the OMS amplifiers (1-2 bands each) for all band edges in '
            'the bound; build_oms_list partitions every generated 3-ROADM network (36 direction patterns x layouts x bands) into '
            'ROADM-to-ROADM OMS with correct pairing and one common slot range; frequency_to_n/nvalue_to_frequency/slots_to_m/'
            'mvalue_to_slots/m_to_freq round-trip exactly in binary64 for |n|<=4096, m<=512.',
            'slot numbers within [-3,3] (quick) / [-6,6]; band edges on the 6.25 GHz grid; 3 ROADM sites; z3, cvc5, symx trusted',
            'DESIGN.md §2 C15'),
    'C16': ('symx',
            'symbolic non-interference: the real batch pipeline executed with symbolic request powers and amplifier p_max; z3/exact '
            'normaliser decide equality of the symbolic receiver figures with the stand-alone run; candidate counterexamples replayed',
            'requests_aggregation + compute_path_dsjctn + compute_path_with_disjunction on a designed two-ROADM line (both directions): '
            'for a request computed after / before a denser bidirectional one, after a blocked one, and next to a twin differing only in '
            'transmit power, the route, mode, verdict and GSNR/OSNR figures are identical as symbolic expressions to the stand-alone run '
            'for all powers and p_max on the explored paths (saturating and non-saturating), amplifier settings of the network unchanged, '
            'every request reported under its own id. requests_from_json: every attribute of a request equals the one parsed alone for '
            'every present/null/absent pattern of the optional keys of both requests; compute_path_dsjctn on meshes with symbolic '
            'lengths: route and blocking reason of each of two requests equal those obtained alone; no reverse path on unidirectional requests; '
            'simulation parameters unchanged by NLI computation.',
            'floats as reals; NLI stubbed to zero in this harness; 2-3 channels per request; paths explored within the time budget (not '
            'exhaustive); spectrum slots not compared',
            'DESIGN.md §2 C16'),
    'C17': ('symx',
            'bounded symbolic execution of the real export/reload/completion code with z3 (export rounding modelled exactly); real '
            'design pipeline executed twice / through export-reload on a shape grammar; models replayed on the float code',
            'Edfa and Fiber export -> reload -> export with symbolic settings: second export equals the first and values are within the '
            'export rounding (0 dB gain included); line-level completion -> export -> reload -> completion with symbolic lengths, user '
            'values and library defaults: connector losses and pads unchanged (known finding: EOL re-added, see known_findings.json); '
            'designed_network twice and through export/reload on 40 shapes and shipped examples gives identical JSON; SimParams snapshot '
            'identical before/after auto-design with a RamanFiber for 4 user settings. RamanFiber export/reload keeps pump powers for every '
            'connector loss; designing the designed object again in place changes nothing (automatic output VOA on/off, power/gain mode; known '
            'finding for operator delta_p with automatic VOA); Roadm export/reload with per-degree targets of all three kinds.',
            'floats as reals; pipeline-level harness with concrete parameters (EOL=0); JSON passed as dicts',
            'DESIGN.md §2 C17'),
    'C20': ('crosshair+symx',
            'CrossHair symbolic execution (z3) of the real spreadsheet converters above the cell layer on bounded symbolic sheets, plus '
            'exhaustive value-forking (symx) of small discrete sheet spaces; counterexamples replayed un-instrumented',
            'xls_to_json_data (parse_excel sanity logic, sanity_check, element/connection builders) on symbolic Nodes/Links sheets (2-4 '
            'sites typed ROADM/ILA/FUSED, 1-4 links incl. dangling/duplicate ones, east/west distances and cable ids): inconsistent '
            'workbooks rejected with NetworkTopologyError and nothing else, consistent ones give the described elements, unique names, '
            'existing endpoints, one fibre per direction with the sheet values (west defaulting to east); Eqpt rows land on the amplifier '
            'facing the named neighbour; a Service row converts units, route list, strictness and disjunction group; route-name correction '
            'for every <=3-name route over a 7-name vocabulary (value-forked). CrossHair verdicts are time-boxed (bounded bug hunting) '
            'except where it reports "Confirmed over all paths". Per-direction Links cells (filled in / empty / absent / symbolic real '
            'incl. 0) and Eqpt cells land on the element of their own direction; routes naming in-line sites across fused sites.',
            'cell layer (xlrd/openpyxl, cell typing) replaced by in-memory rows; time-boxed CrossHair; small vocabularies',
            'DESIGN.md §2 C20'),
    'C19': ('symx',
            'bounded symbolic execution of the real response-building and CSV export code with z3 (exact two-decimal rounding); models '
            'replayed on the float code',
            'On the C13 path with distinct symbolic receiver figures per direction and channel: ResultElement.json lists the route hop by '
            'hop, transponder type/mode, assigned N/M labels (none when blocked, with the blocking reason), every SNR metric is the value of '
            'the RIGHT direction\'s receiver rounded to two decimals, penalties are that direction\'s; results_to_json has one entry per '
            'request; the CSV row states the same values and its pass flag is equivalent to lowest SNR >= OSNR + margin; aggregation joins '
            'only identical requests (id joined, bandwidth summed). A request blocked at spectrum assignment is reported as no-path with '
            'its reason; operator-fixed slots at N = 0 are reported.',
            'floats as reals; 3 channels; csv.DictWriter replaced by a row recorder; line environment stub as in C13',
            'DESIGN.md §2 C19'),
    'C18': ('crosshair',
            'CrossHair symbolic execution (z3) of the real converters on bounded symbolic documents; counterexamples replayed '
            'un-instrumented',
            'For each converter pair (degree targets, design bands, per-frequency loss, power ranges, nf_coef incl. YANG list order, '
            'nf_fit_coef, raman coefficient, none<->[None], default ROADM type_variety), the namespace stripping, the integer/decimal '
            'dispatch of convert_dict/convert_back and the Transceiver other_name expansion: back(to(d)) == d, to(to(d)) == to(d), '
            'structure preserved, every alias reports its own name; two ROADMs with their own per-degree bands/targets do not leak into '
            'each other; Edfa and mode other_name aliases. "Confirmed over all paths" within the document bound for most '
            'harnesses; the rest are time-boxed bounded bug hunting (no counterexample in 25 s / 120 s).',
            'documents <= 2 elements, leaves <= 2-4 items, strings <= 26 chars; libyang validation, file I/O and CPython float '
            'formatting trusted; composed legacy_to_yang/yang_to_legacy on whole files not symbolically executed',
            'DESIGN.md §2 C18'),
    'C14': ('symx',
            'bounded symbolic execution of the real spectrum-assignment code on bitmaps of symbolic cells with z3 (inductive step '
            'over request histories); models replayed on the real code',
            'One call of the real pth_assign_spectrum from an arbitrary spectrum state (every bitmap cell symbolic) for every request '
            'shape in the bound: accepted => ranges disjoint, free before and occupied after on every path OMS, untouched elsewhere, '
            'inside band/guard bands (fixed N next to either band edge included), enough slots, fixed N/M used as given, first-fit '
            'lowest position; blocked => state unchanged; '
            'never an exception. Each explored path is a branch of the algorithm valid for all cell valuations reaching it.',
            'bitmap length 5-9 (7-11 thorough), <=2 slot entries, M<=2, <=2 channels, guard band 1 slot, first_fit; path elements are '
            'stubs carrying oms_id; z3 and symx trusted',
            'DESIGN.md §2 C14'),
}

PENDING_REASON = 'check not built yet in this session (solver-based harness planned in DESIGN.md §2); not claimed until it runs clean'

ALL = [f'C{i:02d}' for i in range(1, 21)]

NOT_APPLICABLE = {}


def manifest():
    checks = []
    for pid, (engine, tech, text, note, ref) in sorted(CLAIMED.items()):
        checks.append(dict(
            property_id=pid,
            quick_cmd=f'./check {pid} --tier quick',
            thorough_cmd=f'./check {pid} --tier thorough',
            evidence_file=f'evidence/{pid}.json',
            replay_cmd_template='./check replay {path}',
            engine=engine,
            level_claimed=dict(category='model_checking', text=text, design_ref=ref),
            level_note=note,
            technique=tech,
        ))
    na = []
    for pid in ALL:
        if pid in CLAIMED:
            continue
        na.append(dict(property_id=pid, reason=NOT_APPLICABLE.get(pid, PENDING_REASON)))
    return dict(
        version=1,
        setup_cmd='./bin/bootstrap',
        hooks=dict(guard='GNPY_VERIF', enable='no source hooks: observation points are obtained by wrapping objects inside the '
                   'harness process; checks import /repo working tree directly (editable install)',
                   baseline_off_cmd='cd /repo && /venv/bin/python -m pytest -ra -q -p no:cacheprovider --timeout=900 '
                                    '--continue-on-collection-errors',
                   source_commits=[], add_only=True),
        engines=[
            dict(name='symx', path='symx/', serves_properties=sorted(k for k, v in CLAIMED.items() if 'symx' in v[0]),
                 kind_free_text='symbolic execution of the real Python/numpy code by operator overloading on numpy object arrays; '
                                'z3 decides branch feasibility and obligations; DFS over decision prefixes by re-execution; '
                                'solver models replayed on the float implementation'),
            dict(name='crosshair', path='harness/c18.py', serves_properties=sorted(k for k, v in CLAIMED.items() if 'crosshair' in v[0]),
                 kind_free_text='CrossHair 0.0.110 run per harness function (one process each), verdict parsed, counterexamples replayed'),
            dict(name='fp-lemma', path='symx/fplemma.py', serves_properties=sorted(k for k, v in CLAIMED.items() if 'fp' in v[0]),
                 kind_free_text='Python AST -> z3 FP/BV translation of small arithmetic kernels; QF_BVFP decided by z3 and cvc5'),
        ],
        checks=checks,
        not_applicable=na,
        notes='Exit codes: 0 property held on everything explored (undecided obligations listed in evidence), 1 reproduced '
              'violation, 3 engine/harness error. Known findings in known_findings.json.',
    )
