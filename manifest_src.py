"""single source for MANIFEST.json (run bin/mkmanifest after editing)"""

CLAIMED = {
    # id: (engine, technique, level text, level note, design ref)
    'C01': ('symx',
            'bounded symbolic execution of the real numpy code with z3 (operator-overloaded object arrays), '
            'inductive element step, solver models replayed on the float code',
            'Every SpectralInformation mutator and every element __call__ is executed symbolically from an arbitrary valid '
            'state (all positive powers, all valid signal/ASE/NLI splits, k<=3 channels; 4 thorough) and z3 decides that the '
            'split invariant and the power bookkeeping hold on the post-state on every path; one inductive step covers '
            'histories of any length.',
            'floats modelled as reals; bounds on channel count; z3, symx operator overloading, numpy object dispatch trusted',
            'DESIGN.md §2 C01'),
}

PENDING_REASON = 'check not built yet in this session (solver-based harness planned in DESIGN.md §2); not claimed until it runs clean'

ALL = [f'C{i:02d}' for i in range(1, 21)]

NOT_APPLICABLE = {}


def manifest():
    checks = []
    for pid, (engine, tech, text, note, ref) in sorted(CLAIMED.items()):
        checks.append(dict(
            property_id=pid,
            quick_cmd=f'./check {pid} --tier quick',
            thorough_cmd=f'./check {pid} --tier thorough',
            evidence_file=f'evidence/{pid}.json',
            replay_cmd_template='./check replay {path}',
            engine=engine,
            level_claimed=dict(category='model_checking', text=text, design_ref=ref),
            level_note=note,
            technique=tech,
        ))
    na = []
    for pid in ALL:
        if pid in CLAIMED:
            continue
        na.append(dict(property_id=pid, reason=NOT_APPLICABLE.get(pid, PENDING_REASON)))
    return dict(
        version=1,
        setup_cmd='./bin/bootstrap',
        hooks=dict(guard='GNPY_VERIF', enable='no source hooks: observation points are obtained by wrapping objects inside the '
                   'harness process; checks import /repo working tree directly (editable install)',
                   baseline_off_cmd='cd /repo && /venv/bin/python -m pytest -ra -q -p no:cacheprovider --timeout=900 '
                                    '--continue-on-collection-errors',
                   source_commits=[], add_only=True),
        engines=[
            dict(name='symx', path='symx/', serves_properties=sorted(CLAIMED),
                 kind_free_text='symbolic execution of the real Python/numpy code by operator overloading on numpy object arrays; '
                                'z3 decides branch feasibility and obligations; DFS over decision prefixes by re-execution; '
                                'solver models replayed on the float implementation'),
        ],
        checks=checks,
        not_applicable=na,
        notes='Exit codes: 0 property held on everything explored (undecided obligations listed in evidence), 1 reproduced '
              'violation, 3 engine/harness error. Known findings in known_findings.json.',
    )
